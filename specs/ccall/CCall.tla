-------------------------------- MODULE CCall --------------------------------
(* Implementation-shaped specification of ccall.CallConcurrently (ccall/ccall.go).           *)
(*                                                                                          *)
(* One action per critical section (Broadcast.HoldLock callback), per goroutine start, per   *)
(* select wake-up and -- this is the point of C17 -- one action for the caller's *unlocked*  *)
(* read of `running` right after the start critical section (ccall.go:53).  The functions    *)
(* passed to the call, their outcomes and the cancellation of the caller's context are the   *)
(* environment.  The CCallP monitor variables are updated at the API-visible actions.        *)
(*                                                                                          *)
(* A scenario is [fns |-> <<[isnil, out]...>>, cancel |-> BOOLEAN]; out is the scripted      *)
(* outcome of the function: "nil" | "E1" | "E2" | "canceled" | "wait" (block until the       *)
(* context is done, then return ctx.Err()).  Several scenarios are checked in one run: the   *)
(* first action Choose(k) picks one (its label tells the schedule generator which).          *)
(*                                                                                          *)
(* FixF10 = FALSE: the code as pinned -- `if running == 0 { return nil }` reads the shared   *)
(*                 counter after the lock was released (F10).                                *)
(* FixF10 = TRUE : "nothing was started" is decided from what the start section itself did.  *)
(* FixF11 = FALSE: the code as pinned -- a single nil entry is called (nil func panic, F11). *)
(* FixF11 = TRUE : a single nil entry is skipped, the call returns nil.                      *)
EXTENDS CCallP, Integers

CONSTANTS Scens, EagerWake, FixF10, FixF11

MaxN == 4

VARIABLES
    sc,        \* chosen scenario (0: not yet)
    pc,        \* caller: idle | imm | fn1 | start | unl | sel | loopcs | done | final
    imm,       \* pending immediate result of the call ("nil" | "panic")
    running,   \* the shared counter (guarded by bcast -- except for the read at :53)
    started,   \* what the start section itself counted (caller-local)
    exitErr,   \* first error (guarded by bcast)
    wch,       \* the caller's sampled wait channel: none | cur | closed
    ctxc,      \* caller's context cancelled
    subc,      \* derived context cancelled (caller's context cancelled, or the call returned)
    w,         \* per function: none | ready (goroutine started, function not yet invoked) |
               \*   run (inside the function) | left (returned; worker about to take the lock) | exited
    rv         \* what the call returned ("" while it has not returned; "panic").  Never read by an
               \* action: it only makes the result part of the state, so that a recorded return can
               \* be compared with it (CCallXTrace).  NoRv is a VIEW without it (4 more states in
               \* the quick set without the view, so the configurations do not bother).

xvars == <<sc, pc, imm, running, started, exitErr, wch, ctxc, subc, w>>
vars == <<xvars, rv, pvars>>
NoRv == <<xvars, pvars>>

Fns  == Scens[sc].fns
N    == Len(Fns)
Real == {f \in 1..N : ~Fns[f].isnil}
Kinds == [f \in 1..N |-> IF Fns[f].isnil THEN "nil" ELSE "fn"]

Init ==
    /\ PInit
    /\ sc = 0 /\ pc = "idle" /\ imm = "" /\ running = 0 /\ started = 0 /\ exitErr = "nil"
    /\ wch = "none" /\ ctxc = FALSE /\ subc = FALSE
    /\ w = [f \in 1..MaxN |-> "none"]
    /\ rv = ""

Choose(k) ==
    /\ sc = 0 /\ sc' = k
    /\ UNCHANGED <<pc, imm, running, started, exitErr, wch, ctxc, subc, w, rv, pvars>>

\* Steps that the controller cannot separate from the step that enabled them: a woken select,
\* a function woken by its context, the return path of the 0/1-function cases.
Silent ==
    /\ sc # 0
    /\ \/ pc = "imm"
       \/ pc = "fn1" /\ w[1] = "left"
       \/ pc = "sel" /\ (wch = "closed" \/ ctxc)
       \/ \E f \in Real : w[f] = "run" /\ Fns[f].out = "wait" /\ subc
Gate == sc # 0 /\ ~(EagerWake /\ Silent)

\* return r: the deferred subCtxCancel runs
DoRet(r) == pc' = "done" /\ subc' = TRUE /\ PRet(r) /\ rv' = r

-----------------------------------------------------------------------------
(* the caller *)

Call ==
    /\ Gate /\ pc = "idle"
    /\ PCall(Kinds)
    /\ IF N = 0 THEN pc' = "imm" /\ imm' = "nil" /\ UNCHANGED w
       ELSE IF N = 1 THEN
            IF Fns[1].isnil
            THEN pc' = "imm" /\ imm' = (IF FixF11 THEN "nil" ELSE "panic") /\ UNCHANGED w
            ELSE pc' = "fn1" /\ w' = [w EXCEPT ![1] = "ready"] /\ UNCHANGED imm   \* runs on the caller's goroutine
       ELSE pc' = "start" /\ UNCHANGED <<w, imm>>
    /\ UNCHANGED <<sc, running, started, exitErr, wch, ctxc, subc, rv>>

\* len(fns) == 0, or the single nil entry
ImmRet ==
    /\ sc # 0 /\ pc = "imm"
    /\ IF imm = "panic" THEN pc' = "done" /\ subc' = TRUE /\ PPanic /\ rv' = "panic" ELSE DoRet(imm)
    /\ UNCHANGED <<sc, imm, running, started, exitErr, wch, ctxc, w>>

\* ccall.go:41-52: sample the wait channel, count and spawn every non-nil function
StartCS ==
    /\ Gate /\ pc = "start"
    /\ wch' = "cur"
    /\ running' = Cardinality(Real)
    /\ started' = Cardinality(Real)
    /\ w' = [f \in 1..MaxN |-> IF f \in Real THEN "ready" ELSE "none"]
    /\ pc' = "unl"
    /\ UNCHANGED <<sc, imm, exitErr, ctxc, subc, rv, pvars>>

\* ccall.go:53: `if running == 0 { return nil }` -- after the lock was released
Unl ==
    /\ Gate /\ pc = "unl"
    /\ IF (IF FixF10 THEN started ELSE running) = 0
       THEN DoRet("nil")
       ELSE pc' = "sel" /\ UNCHANGED <<subc, rv, pvars>>
    /\ UNCHANGED <<sc, imm, running, started, exitErr, wch, ctxc, w>>

Wake ==
    /\ sc # 0 /\ pc = "sel" /\ wch = "closed"
    /\ pc' = "loopcs"
    /\ UNCHANGED <<sc, imm, running, started, exitErr, wch, ctxc, subc, w, rv, pvars>>

WakeCtx ==
    /\ sc # 0 /\ pc = "sel" /\ ctxc
    /\ DoRet("canceled")
    /\ UNCHANGED <<sc, imm, running, started, exitErr, wch, ctxc, w>>

\* ccall.go:64-71
LoopCS ==
    /\ Gate /\ pc = "loopcs"
    /\ wch' = "cur"
    /\ IF running = 0 \/ exitErr \notin {"nil", "canceled"}
       THEN DoRet(exitErr)
       ELSE pc' = "sel" /\ UNCHANGED <<subc, rv, pvars>>
    /\ UNCHANGED <<sc, imm, running, started, exitErr, ctxc, w>>

-----------------------------------------------------------------------------
(* the functions and the worker goroutines *)

\* the goroutine (or, with one function, the caller) invokes function f
Enter(f) ==
    /\ Gate /\ f \in Real /\ w[f] = "ready"
    /\ w' = [w EXCEPT ![f] = "run"]
    /\ PEnter(f, subc)
    /\ UNCHANGED <<sc, pc, imm, running, started, exitErr, wch, ctxc, subc, rv>>

\* environment: function f returns its scripted outcome
Fin(f) ==
    /\ Gate /\ f \in Real /\ w[f] = "run" /\ Fns[f].out # "wait"
    /\ w' = [w EXCEPT ![f] = "left"]
    /\ PLeave(f, Fns[f].out, subc)
    /\ UNCHANGED <<sc, pc, imm, running, started, exitErr, wch, ctxc, subc, rv>>

\* a context-respecting function sees its context done and returns ctx.Err()
WaitWake(f) ==
    /\ sc # 0 /\ f \in Real /\ w[f] = "run" /\ Fns[f].out = "wait" /\ subc
    /\ w' = [w EXCEPT ![f] = "left"]
    /\ PLeave(f, "canceled", TRUE)
    /\ UNCHANGED <<sc, pc, imm, running, started, exitErr, wch, ctxc, subc, rv>>

\* one function: `return fns[0](subCtx)`
Ret1 ==
    /\ sc # 0 /\ pc = "fn1" /\ w[1] = "left"
    /\ w' = [w EXCEPT ![1] = "exited"]
    /\ DoRet(outs[1])
    /\ UNCHANGED <<sc, imm, running, started, exitErr, wch, ctxc>>

\* ccall.go:31-37: running--, keep the first real error, broadcast
WorkerCS(f) ==
    /\ Gate /\ N >= 2 /\ f \in Real /\ w[f] = "left"
    /\ running' = running - 1
    /\ exitErr' = IF outs[f] # "nil" /\ exitErr \in {"nil", "canceled"} THEN outs[f] ELSE exitErr
    /\ wch' = IF wch = "cur" THEN "closed" ELSE wch
    /\ w' = [w EXCEPT ![f] = "exited"]
    /\ UNCHANGED <<sc, pc, imm, started, ctxc, subc, rv, pvars>>

-----------------------------------------------------------------------------
(* environment *)

Cancel ==
    /\ Gate /\ Scens[sc].cancel /\ ~ctxc /\ pc \in {"fn1", "start", "unl", "sel", "loopcs"}
    /\ ctxc' = TRUE /\ subc' = TRUE
    /\ PCancel
    /\ UNCHANGED <<sc, pc, imm, running, started, exitErr, wch, w, rv>>

AllExited == \A f \in Real : w[f] = "exited"

\* the execution is torn down once everything has run
Final ==
    /\ Gate /\ pc = "done" /\ (phase = "returned" => AllExited)
    /\ pc' = "final"
    /\ PFinal
    /\ UNCHANGED <<sc, imm, running, started, exitErr, wch, ctxc, subc, w, rv>>

Next ==
    \/ \E k \in 1..Len(Scens) : Choose(k)
    \/ Call \/ ImmRet \/ StartCS \/ Unl \/ Wake \/ WakeCtx \/ LoopCS \/ Ret1 \/ Cancel \/ Final
    \/ \E f \in 1..MaxN : Enter(f) \/ Fin(f) \/ WaitWake(f) \/ WorkerCS(f)

Spec == Init /\ [][Next]_vars

-----------------------------------------------------------------------------
LibQuiet ==
    /\ sc # 0 /\ ~Silent
    /\ pc \notin {"start", "unl", "loopcs"}
    /\ N >= 2 => \A f \in Real : w[f] # "left"

TypeOK ==
    /\ pc \in {"idle", "imm", "fn1", "start", "unl", "sel", "loopcs", "done", "final"}
    /\ wch \in {"none", "cur", "closed"}
    /\ running \in 0..MaxN
    /\ exitErr \in {"nil", "E1", "E2", "canceled"}

\* the counter counts the workers that have not done their critical section yet
Counter == (sc # 0 /\ N >= 2 /\ pc \notin {"idle", "start"}) =>
              running = Cardinality({f \in Real : w[f] \in {"ready", "run", "left"}})
QuietInv == LibQuiet => QuietOK(pc = "sel")
ModelSafe == Safe_C17 /\ NoHarnessError
=============================================================================
