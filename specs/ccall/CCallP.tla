------------------------------- MODULE CCallP -------------------------------
(* Property monitor for ccall.CallConcurrently (C17).                                        *)
(*                                                                                          *)
(* API-level state only: which entries of the argument list are nil, how often each          *)
(* function was invoked, with which outcome it returned, whether the caller's context was    *)
(* cancelled, and how the call ended.  One monitor instance = one call of CallConcurrently.  *)
(*                                                                                          *)
(* Events (all observable by a client that owns the functions):                              *)
(*   call(kinds)            the call starts; kinds[f] \in {"fn","nil"}                       *)
(*   enter(f, ctxdone)      function f is invoked; ctxdone = its context is already done     *)
(*   leave(f, out, ctxdone) function f returns out \in {"nil","E1","E2","canceled"}          *)
(*   cancel                 the caller's context is cancelled                                *)
(*   ret(res)               the call returns res \in {"nil","E1","E2","canceled"}            *)
(*   panic                  the call panicked (harness functions never panic)                *)
(*   ctxobs(f, done)        a function that is still running samples ctx.Err() # nil         *)
(*   quiet(blocked)         controller observation: no library-internal step is possible;    *)
(*                          blocked = the call is in flight and its goroutine is blocked     *)
(*                          inside the library (not inside one of the functions)             *)
(*   final                  the execution was torn down: everything that can run has run     *)
(*                                                                                          *)
(* Interpretation of the statement (weaker readings where it is ambiguous):                  *)
(*  I1 "returns nil only after all of them have returned nil": at ret(nil) every non-nil     *)
(*     function has been invoked and has returned nil *before* the return.  Split in two     *)
(*     names: NilButError (some function had returned a non-nil error, context.Canceled      *)
(*     included, the statement says "returned nil") and NilBeforeDone (some function had     *)
(*     not returned yet).                                                                    *)
(*  I2 "If any function returns an error other than Canceled, the call returns such an       *)
(*     error that some function actually returned" and "if the caller's context is           *)
(*     cancelled first it returns Canceled" overlap when both happened before the return;    *)
(*     "first" cannot be observed from outside (the caller's select may see both), so then   *)
(*     either result is accepted.  A result Canceled while nothing was cancelled and some    *)
(*     function had returned a real error is ErrMasked; a real error that no function had    *)
(*     returned although another real error had been returned is WrongErr.  A Canceled       *)
(*     result with no real error and no cancellation is left unconstrained (the statement    *)
(*     does not say what the call returns when a function itself returns Canceled).          *)
(*  I3 The two "returns ..." clauses are read as obligations to return: at a point where no  *)
(*     library step is possible, a call blocked inside the library although a real error     *)
(*     was returned (Stuck:err) or its context was cancelled (Stuck:cancel) is a violation.  *)
(*     The same is demanded when every function has returned (Stuck:done): "returns nil      *)
(*     [...] after all of them have returned nil" is read as describing a call that ends     *)
(*     once nothing it waits for is left.  Nothing is demanded about *when* it returns       *)
(*     otherwise, and with a single function the call is that function's own return, so a    *)
(*     call that sits inside a function is never "blocked inside the library".               *)
(*  I4 "runs every non-nil function, each exactly once": never twice (Twice); each invoked   *)
(*     by the time the execution has been torn down (NotRun) -- the statement does not say   *)
(*     that a function must have been invoked before an error/Canceled return.               *)
(*  I5 "once it has returned, the context given to the functions is cancelled": every        *)
(*     observation of that context made after ret (at invocation, at return, or by an        *)
(*     explicit sample of a still-running function) sees it done (CtxLive).                  *)
(*  I6 nil entries are part of the quantifier ("including 0, 1 and nil entries") and are not *)
(*     functions to run; a call that panics instead of returning is a violation (Panic).     *)
EXTENDS Naturals, FiniteSets, Sequences, TLC

VARIABLES
    kinds,      \* sequence: "fn" | "nil" per argument
    phase,      \* "idle" | "called" | "returned" | "panicked"
    calls,      \* f -> number of invocations
    outs,       \* f -> "" (not returned) | "nil" | "E1" | "E2" | "canceled"
    cancelled,  \* the caller's context has been cancelled
    bad         \* names of conditions that failed (sticky)

pvars == <<kinds, phase, calls, outs, cancelled, bad>>

PInit ==
    /\ kinds = <<>> /\ phase = "idle" /\ calls = <<>> /\ outs = <<>>
    /\ cancelled = FALSE /\ bad = {}

PReset ==
    /\ kinds' = <<>> /\ phase' = "idle" /\ calls' = <<>> /\ outs' = <<>>
    /\ cancelled' = FALSE /\ bad' = {}

Args    == 1..Len(kinds)
NonNil  == {f \in Args : kinds[f] = "fn"}
Left    == {f \in NonNil : outs[f] # ""}
RealErrs == {outs[f] : f \in Left} \ {"nil", "canceled"}
AllNil  == \A f \in NonNil : outs[f] = "nil"
AllLeft == \A f \in NonNil : outs[f] # ""

-----------------------------------------------------------------------------
\* The controller saw one goroutine of the call take 50 library steps in a row without any event (no
\* function entered or left, nothing returned): the call loops instead of returning.  I3: a violation
\* when something it must return for has happened (an error, the cancellation, every function done).
PSpin ==
    /\ bad' = bad \cup (IF phase = "called" /\ (cancelled \/ RealErrs # {} \/ AllLeft) THEN {"Stuck:spin"} ELSE {})
    /\ UNCHANGED <<kinds, phase, calls, outs, cancelled>>

PCall(ks) ==
    /\ kinds' = ks
    /\ phase' = "called"
    /\ calls' = [f \in 1..Len(ks) |-> 0]
    /\ outs' = [f \in 1..Len(ks) |-> ""]
    /\ bad' = bad \cup (IF phase # "idle" THEN {"Harness"} ELSE {})
    /\ UNCHANGED cancelled

PEnter(f, ctxdone) ==
    IF f \notin Args \/ phase = "idle"
    THEN /\ bad' = bad \cup {"Harness"} /\ UNCHANGED <<kinds, phase, calls, outs, cancelled>>
    ELSE
    /\ calls' = [calls EXCEPT ![f] = @ + 1]
    /\ bad' = bad
        \cup (IF kinds[f] # "fn" THEN {"Harness"} ELSE {})
        \cup (IF calls[f] >= 1 THEN {"Twice"} ELSE {})
        \cup (IF phase = "returned" /\ ~ctxdone THEN {"CtxLive"} ELSE {})
    /\ UNCHANGED <<kinds, phase, outs, cancelled>>

PLeave(f, out, ctxdone) ==
    IF f \notin Args \/ phase = "idle"
    THEN /\ bad' = bad \cup {"Harness"} /\ UNCHANGED <<kinds, phase, calls, outs, cancelled>>
    ELSE
    /\ outs' = [outs EXCEPT ![f] = out]
    /\ bad' = bad
        \cup (IF calls[f] = 0 \/ (calls[f] = 1 /\ outs[f] # "") \/ out \notin {"nil", "E1", "E2", "canceled"}
              THEN {"Harness"} ELSE {})
        \cup (IF phase = "returned" /\ ~ctxdone THEN {"CtxLive"} ELSE {})
    /\ UNCHANGED <<kinds, phase, calls, cancelled>>

PCancel ==
    /\ cancelled' = TRUE
    /\ UNCHANGED <<kinds, phase, calls, outs, bad>>

RetBad(res) ==
    CASE res = "nil" ->
            IF AllNil THEN {}
            ELSE IF \E f \in NonNil : outs[f] \notin {"", "nil"} THEN {"NilButError"}
            ELSE {"NilBeforeDone"}
      [] res \in {"E1", "E2"} ->
            IF res \in RealErrs THEN {}
            ELSE IF RealErrs # {} THEN {"WrongErr"}
            ELSE {"Harness"}     \* an error nobody returned: cannot come from the library
      [] res = "canceled" ->
            IF RealErrs # {} /\ ~cancelled THEN {"ErrMasked"} ELSE {}
      \* "other:<text>": neither nil nor context.Canceled nor an error of the harness's functions -- an error
      \* nobody returned (e.g. ctx.Err() of a caller whose context ended by its deadline)
      [] OTHER -> {"WrongErr"}

PRet(res) ==
    /\ phase' = "returned"
    /\ bad' = bad \cup (IF phase # "called" THEN {"Harness"} ELSE RetBad(res))
    /\ UNCHANGED <<kinds, calls, outs, cancelled>>

PPanic ==
    /\ phase' = "panicked"
    /\ bad' = bad \cup (IF phase # "called" THEN {"Harness"} ELSE {"Panic"})
    /\ UNCHANGED <<kinds, calls, outs, cancelled>>

PCtxObs(f, done) ==
    /\ bad' = bad \cup (IF phase = "returned" /\ ~done THEN {"CtxLive"} ELSE {})
    /\ UNCHANGED <<kinds, phase, calls, outs, cancelled>>

\* What must hold where no library-internal step is possible.
QuietBad(blocked) ==
    IF phase = "called" /\ blocked
    THEN (IF RealErrs # {} THEN {"Stuck:err"} ELSE {})
         \cup (IF cancelled THEN {"Stuck:cancel"} ELSE {})
         \cup (IF AllLeft THEN {"Stuck:done"} ELSE {})
    ELSE {}
QuietOK(blocked) == QuietBad(blocked) = {}

PQuiet(blocked) ==
    /\ bad' = bad \cup QuietBad(blocked)
    /\ UNCHANGED <<kinds, phase, calls, outs, cancelled>>

\* After everything had returned the harness called CallConcurrently once more with the caller's very
\* same argument slice (functions that return nil at once); cnt[f] = invocations of argument f.
\* I4 for that call: every non-nil function exactly once.
PReuse(cnt) ==
    /\ bad' = bad \cup (IF \E f \in NonNil : f <= Len(cnt) /\ cnt[f] > 1 THEN {"Twice"} ELSE {})
                   \cup (IF \E f \in NonNil : f <= Len(cnt) /\ cnt[f] = 0 THEN {"NotRun"} ELSE {})
                   \cup (IF \E f \in Args \ NonNil : f <= Len(cnt) /\ cnt[f] # 0 THEN {"Harness"} ELSE {})
    /\ UNCHANGED <<kinds, phase, calls, outs, cancelled>>

PFinal ==
    /\ bad' = bad \cup (IF phase = "returned" /\ \E f \in NonNil : calls[f] = 0 THEN {"NotRun"} ELSE {})
    /\ UNCHANGED <<kinds, phase, calls, outs, cancelled>>

-----------------------------------------------------------------------------
Safe_C17 == bad \ {"Harness", "Unexplained"} = {}
NoHarnessError == "Harness" \notin bad

Violated == bad

PropertyOf == [NilButError |-> "C17", NilBeforeDone |-> "C17", WrongErr |-> "C17", ErrMasked |-> "C17",
               Stuck |-> "C17", Twice |-> "C17", NotRun |-> "C17", CtxLive |-> "C17", Panic |-> "C17",
               Harness |-> "HARNESS", Unexplained |-> "HARNESS"]
=============================================================================
