------------------------------ MODULE PromiseP ------------------------------
(* Property monitor for promise.Promise / promise.PromiseContainer (C11).                    *)
(*                                                                                          *)
(* API-level state only: which SetResult / SetPromise / Await* calls were made with which   *)
(* arguments, what they returned, which contexts were cancelled, which error / cancel        *)
(* channels fired, plus the controller's exact observations (blocked awaiters at a          *)
(* library-quiescent point, a spinning awaiter).  The operators are fired (a) by the        *)
(* implementation-shaped spec Promise.tla at its API-visible actions and (b) by             *)
(* PromisePTrace.tla from events recorded from the real code.                               *)
(*                                                                                          *)
(* Reading of the statement (weaker reading wherever it is ambiguous):                      *)
(*  R1 "exactly the first SetResult returns true" under concurrency: at most one call on a  *)
(*     promise returns true; a call that returns true did not start after another call on   *)
(*     the same promise had already returned; a call that returns false has a possible      *)
(*     winner (an earlier true, a pre-resolved promise, or a call still in flight).          *)
(*     PromiseContainer.SetResult is a replacement ("SetPromise(resolved promise)"), not a  *)
(*     SetResult "on one Promise": its return value is not judged.                           *)
(*  R2 "completes by result": result values are >= 1 and the zero value is 0, so a return   *)
(*     with a non-zero value claims to be by result and must be the pair of the winning     *)
(*     SetResult of a promise the awaiter may follow.  A return with the zero value that    *)
(*     is not such a pair needs a cause (own context cancelled, own channel fired); what    *)
(*     exactly is returned then is NOT judged (the code comments and the two types differ   *)
(*     here: (0,nil) vs (0,Canceled); the statement is silent).                              *)
(*  R3 "the promise that is current, follows replacements": the promise whose result a      *)
(*     container awaiter returns was possibly current at some moment of the call (calls of  *)
(*     SetPromise overlap with each other and with the await, so "current" is the set of    *)
(*     values the container may hold given the real-time order of calls and returns).       *)
(*     Following is judged at quiescent points: no awaiter stays blocked when every promise *)
(*     that may be current has its result available.                                        *)
(*  R4 "returns as soon as ...": judged at the controller's quiescent points (no library    *)
(*     step possible): a blocked awaiter must not have a satisfied return condition.         *)
(*  R5 "otherwise blocks without consuming CPU": the controller's spin observation (the     *)
(*     same awaiter passed 50 consecutive critical sections, nothing else moved, nothing    *)
(*     was logged).                                                                          *)
(*                                                                                          *)
(* What the logged events bound (the atomic steps / critical sections themselves are not    *)
(* logged; "call" is logged before the library is entered, "ret" after it has returned):     *)
(*   B1  the swap of a SetResult happens between its logged call and its logged return; the *)
(*       result of a SetResult that returned true is certainly available from its logged    *)
(*       return on (fields written, done channel closed) and was not before its logged call;*)
(*   B2  a replacement (SetPromise / container.SetResult) takes effect between its logged   *)
(*       call and its logged return; between the two the container may hold the old or the  *)
(*       new promise;                                                                        *)
(*   B3  an await samples / selects between its logged call and its logged return; an await *)
(*       that returned a result got it from a SetResult that was logged-started before the   *)
(*       await's logged return (pending or returned), and, on a container, from a promise    *)
(*       that was possibly current (B2) at some moment between the await's two events;       *)
(*   B4  a context is not cancelled / a channel has not fired before the logged "cancel" /   *)
(*       "fire" (logged before cancel() / the send / the close);                             *)
(*   B5  a "quiet" observation is exact: no goroutine is parked at any hook (in fine          *)
(*       executions: not at the end of a critical section either), every call in flight is   *)
(*       an await durably blocked in its select with no case ready.                          *)
(* Executions come in two granularities (event "cfg", variable fine):                        *)
(*   coarse (fine = FALSE): a critical section of the container and everything its goroutine *)
(*       does up to its next critical section or block is ONE controller step: an awaiter    *)
(*       that a replacement wakes re-samples the container before anything else happens, and  *)
(*       an awaiter enters its select in the step of its sampling section.  (Combined        *)
(*       "grant & cancel/fire" steps, sched.Exec.Double, occur at both granularities: the     *)
(*       cancel / fire is logged first, B4.)                                                 *)
(*   fine (fine = TRUE; sched.Exec.ParkUnl): the END of a critical section is a park point   *)
(*       too: between an awaiter's sampling section and its select a replacement AND a        *)
(*       SetResult on the replaced promise (and a cancellation) can land, the select is       *)
(*       entered with several cases ready and Go chooses; a replacement's logged return lies  *)
(*       steps after its effect.  Only B1-B5 hold.  Unknown granularity (no cfg event) is     *)
(*       treated as fine.                                                                     *)
(* What each condition rests on:                                                            *)
(*   SecondTrue      order-free (two calls on one promise returned true).                   *)
(*   NotFirst        B1: j's logged return before i's logged call => j's swap before i's.     *)
(*   NoWinner        B1: the swap that beat i belongs to a call logged-started before i's     *)
(*                   logged return: it is pending or has returned true (or pre-resolved).     *)
(*   ResultMismatch  order-free (an awaiter's pair for q differs from the winner's pair).     *)
(*   WrongResult,    B3, B4.  The set of promises a container awaiter may return from is the  *)
(*   NoCause         interval bound `aux` (B2/B3): sound at either granularity.  The sharper       *)
(*                   "follows replacements" reading (`late`: not the result of a promise that  *)
(*                   got it only after it was certainly replaced) assumes that an awaiter      *)
(*                   which sampled the promise has re-sampled by the time the replacement's    *)
(*                   step is over - true at coarse granularity only.  In a fine execution the  *)
(*                   awaiter may sit between its sampling section and its select while the     *)
(*                   promise is replaced and then resolved; its select then finds the          *)
(*                   replacement channel and the done channel both ready, Go takes either, and  *)
(*                   the code re-checks the replacement channel only for results whose error   *)
(*                   is context.Canceled.  This is observation O6 of Promise.tla, which the     *)
(*                   design already tolerates at model level (it needs the awaiter's goroutine *)
(*                   not to run between replacement and resolution).  All 19 alarms reproduced  *)
(*                   with the refinements on (seeds 1-3, 360 000 seeded executions:            *)
(*                   WrongResult:container:await|errch|cancelch) are this race, all in fine    *)
(*                   executions; the coarse ones, combined steps included, raised none.  `late` *)
(*                   is therefore applied in coarse executions only.  (Read strictly, the race  *)
(*                   does return the result of a promise that was never current while          *)
(*                   resolved; a re-check of the replacement channel                           *)
(*                   after every inner await closes it: proposed-fix-3.diff, constant FixO6 of  *)
(*                   Promise.tla, under which `late` holds in every interleaving.)              *)
(*   AwaitStuck      B5 + B1/B2/B4 ("certainly available", "certainly cancelled / fired").     *)
(*   AwaitSpin       the controller's observation; no event order involved.                  *)
EXTENDS Naturals, FiniteSets, Sequences, TLC

VARIABLES
    pres,     \* promise id -> <<>> (no result observed yet) | <<v, e>> (the result pair)
    pavail,   \* promises whose result is certainly available (SetResult returned true / created resolved)
    curposs,  \* promise ids the container may currently hold (0 = no promise)
    late,     \* promises whose first SetResult started while they were certainly not current (and that were
              \* not installed again since): their result became available only after they had been replaced
    ck,       \* call id -> "set" | "cset" | "setp" | "await"
    cst,      \* call id -> "pending" | "done"
    ca,       \* call id -> [q, v, e, kind, actor]  (q: promise; for await: 0 = the container)
    cres,     \* set call id -> "" | "true" | "false"
    aux,      \* set: calls on the same promise that had returned when this one started
              \* setp/cset: targets of overlapping setp/cset calls
              \* await: promises that were possibly current at some moment of the call
    canc,     \* await ids whose context has been cancelled
    fired,    \* await id -> "" | how its error/cancel channel fired
    fine,     \* granularity of this execution (see above)
    bad       \* names of conditions that failed (sticky)

pvars == <<pres, pavail, curposs, late, ck, cst, ca, cres, aux, canc, fired, fine, bad>>

PInit ==
    /\ pres = <<>> /\ pavail = {} /\ curposs = {0} /\ late = {}
    /\ ck = <<>> /\ cst = <<>> /\ ca = <<>> /\ cres = <<>> /\ aux = <<>>
    /\ canc = {} /\ fired = <<>> /\ bad = {} /\ fine = TRUE

PReset ==
    /\ pres' = <<>> /\ pavail' = {} /\ curposs' = {0} /\ late' = {}
    /\ ck' = <<>> /\ cst' = <<>> /\ ca' = <<>> /\ cres' = <<>> /\ aux' = <<>>
    /\ canc' = {} /\ fired' = <<>> /\ bad' = {} /\ fine' = TRUE

\* The driver tells the granularity of the execution (after "init").
PCfg(f) ==
    /\ fine' = f
    /\ UNCHANGED <<pres, pavail, curposs, late, ck, cst, ca, cres, aux, canc, fired, bad>>

\* Scenario declaration.  pre: sequence of [r, v, e] (r: created resolved with (v,e));
\* c: the promise the container holds initially (0 = none).
ScenPres(pre) == [q \in 1..Len(pre) |-> IF pre[q].r THEN <<pre[q].v, pre[q].e>> ELSE <<>>]
ScenAvail(pre) == {q \in 1..Len(pre) : pre[q].r}

PInitScenF(pre, c, f) ==
    /\ pres = ScenPres(pre) /\ pavail = ScenAvail(pre) /\ curposs = {c} /\ late = {}
    /\ ck = <<>> /\ cst = <<>> /\ ca = <<>> /\ cres = <<>> /\ aux = <<>>
    /\ canc = {} /\ fired = <<>> /\ bad = {} /\ fine = f
PInitScen(pre, c) == PInitScenF(pre, c, FALSE)

PScen(pre, c) ==
    /\ pres' = ScenPres(pre) /\ pavail' = ScenAvail(pre) /\ curposs' = {c} /\ late' = {}
    /\ bad' = bad \cup (IF ck # <<>> THEN {"Harness"} ELSE {})
    /\ UNCHANGED <<ck, cst, ca, cres, aux, canc, fired, fine>>

Ids       == DOMAIN ck
Proms     == DOMAIN pres
PendingK(k) == {i \in Ids : ck[i] = k /\ cst[i] = "pending"}
PendRepl  == PendingK("setp") \cup PendingK("cset")
PendAwaitC == {i \in PendingK("await") : ca[i].q = 0}
SetsOn(q) == {i \in Ids : ck[i] = "set" /\ ca[i].q = q}

Args(q, v, e, kind, actor) == [q |-> q, v |-> v, e |-> e, kind |-> kind, actor |-> actor]

NewCall(i, k, a) ==
    /\ ck' = (i :> k) @@ ck
    /\ cst' = (i :> "pending") @@ cst
    /\ ca' = (i :> a) @@ ca
    /\ cres' = (i :> "") @@ cres
    /\ fired' = (i :> "") @@ fired

Tgt(i)  == IF ca[i].q = 0 THEN "container" ELSE "plain"
Desc(i) == Tgt(i) \o ":" \o ca[i].kind

-----------------------------------------------------------------------------
(* Events *)

\* Promise.SetResult(v, e) on promise q starts.
PCallSet(i, q, v, e, actor) ==
    /\ NewCall(i, "set", Args(q, v, e, "", actor))
    /\ aux' = (i :> {j \in SetsOn(q) : cst[j] = "done"}) @@ aux
    /\ bad' = bad \cup (IF i \in Ids \/ q \notin Proms \/ v < 1 THEN {"Harness"} ELSE {})
    /\ late' = IF q \in Proms /\ q \notin curposs /\ pres[q] = <<>> /\ ~\E j \in SetsOn(q) : TRUE
               THEN late \cup {q} ELSE late
    /\ UNCHANGED <<pres, pavail, curposs, canc, fine>>

\* ... and returns ok \in BOOLEAN.
PRetSet(i, ok) ==
    LET q == ca[i].q
        pair == <<ca[i].v, ca[i].e>>
        others == SetsOn(q) \ {i}
    IN
    /\ cst' = [cst EXCEPT ![i] = "done"]
    /\ cres' = [cres EXCEPT ![i] = IF ok THEN "true" ELSE "false"]
    /\ pres' = IF ok /\ pres[q] = <<>> THEN [pres EXCEPT ![q] = pair] ELSE pres
    /\ pavail' = IF ok THEN pavail \cup {q} ELSE pavail
    /\ bad' = bad
        \cup (IF i \notin Ids \/ ck[i] # "set" \/ cst[i] # "pending" THEN {"Harness"} ELSE {})
        \cup (IF ok /\ q \in pavail THEN {"SecondTrue"} ELSE {})
        \cup (IF ok /\ aux[i] # {} THEN {"NotFirst"} ELSE {})
        \* an awaiter already returned a different pair as "the result" of q
        \cup (IF ok /\ pres[q] # <<>> /\ pres[q] # pair THEN {"ResultMismatch"} ELSE {})
        \cup (IF ~ok /\ q \notin pavail /\ ~\E j \in others : cst[j] = "pending" THEN {"NoWinner"} ELSE {})
    /\ UNCHANGED <<curposs, ck, ca, aux, canc, fired, late, fine>>

\* A replacement call starts: SetPromise(q) (q = 0: nil) or container.SetResult (creates the
\* resolved promise q).  From now on q may be current, for every call in flight.
ReplStart(i, q) ==
    /\ curposs' = curposs \cup {q}
    /\ late' = late \ {q}
    /\ aux' = [j \in Ids \cup {i} |->
                 IF j = i THEN {ca[k].q : k \in PendRepl}
                 ELSE IF j \in PendRepl \/ j \in PendAwaitC THEN aux[j] \cup {q}
                 ELSE aux[j]]

PCallSetp(i, q, actor) ==
    /\ NewCall(i, "setp", Args(q, 0, "", "", actor))
    /\ ReplStart(i, q)
    /\ bad' = bad \cup (IF i \in Ids \/ (q # 0 /\ q \notin Proms) THEN {"Harness"} ELSE {})
    /\ UNCHANGED <<pres, pavail, canc, fine>>

PCallCset(i, q, v, e, actor) ==
    /\ NewCall(i, "cset", Args(q, v, e, "", actor))
    /\ ReplStart(i, q)
    /\ pres' = [pres EXCEPT ![q] = <<v, e>>]
    /\ pavail' = pavail \cup {q}
    /\ bad' = bad \cup (IF i \in Ids \/ q \notin Proms \/ v < 1 THEN {"Harness"}
                        ELSE IF pres[q] # <<>> \/ SetsOn(q) # {} THEN {"Harness"} ELSE {})
    /\ UNCHANGED <<canc, fine>>

\* A replacement call returns: it took effect before now, so the container holds its target
\* or the target of a replacement that overlapped with it.
PRetRepl(i) ==
    /\ cst' = [cst EXCEPT ![i] = "done"]
    /\ curposs' = curposs \cap ({ca[i].q} \cup aux[i])
    /\ bad' = bad \cup (IF i \notin Ids \/ ck[i] \notin {"setp", "cset"} \/ cst[i] # "pending" THEN {"Harness"} ELSE {})
    /\ UNCHANGED <<pres, pavail, ck, ca, cres, aux, canc, fired, late, fine>>

\* An await starts.  q: the plain promise awaited, 0: the container.  kind: await|errch|cancelch.
PCallAwait(i, q, kind, actor) ==
    /\ NewCall(i, "await", Args(q, 0, "", kind, actor))
    /\ aux' = (i :> IF q = 0 THEN curposs ELSE {q}) @@ aux
    /\ bad' = bad \cup (IF i \in Ids \/ (q # 0 /\ q \notin Proms) THEN {"Harness"} ELSE {})
    /\ UNCHANGED <<pres, pavail, curposs, canc, late, fine>>

\* Could (v,e) be the result of promise q?  Either it is the known pair, or no result has been
\* observed yet and a SetResult(v,e) on q is in flight (the awaiter may see the result before
\* the setter's return is logged).
Match(q, v, e) ==
    /\ q # 0
    /\ \/ pres[q] = <<v, e>>
       \/ /\ pres[q] = <<>>
          /\ \E j \in SetsOn(q) : cst[j] = "pending" /\ ca[j].v = v /\ ca[j].e = e

PRetAwait(i, v, e) ==
    \* "follows replacements": a container awaiter does not return the result of a promise that got it
    \* only after it had been replaced -- judged in coarse executions only (header: WrongResult)
    LET M == {q \in (IF ca[i].q = 0 /\ ~fine THEN aux[i] \ late ELSE aux[i]) : Match(q, v, e)} IN
    /\ cst' = [cst EXCEPT ![i] = "done"]
    /\ pres' = [q \in Proms |-> IF q \in M /\ pres[q] = <<>> THEN <<v, e>> ELSE pres[q]]
    /\ bad' = bad
        \cup (IF i \notin Ids \/ ck[i] # "await" \/ cst[i] # "pending" THEN {"Harness"} ELSE {})
        \cup (IF M # {} THEN {}
              ELSE IF v # 0 THEN {"WrongResult:" \o Desc(i)}
              ELSE IF i \in canc \/ fired[i] # "" THEN {}
              ELSE {"NoCause:" \o Desc(i)})
    /\ UNCHANGED <<pavail, curposs, ck, ca, cres, aux, canc, fired, late, fine>>

PCancel(i) ==
    /\ canc' = canc \cup {i}
    /\ bad' = bad \cup (IF i \notin Ids \/ ck[i] # "await" THEN {"Harness"} ELSE {})
    /\ UNCHANGED <<pres, pavail, curposs, ck, cst, ca, cres, aux, fired, late, fine>>

\* The error / cancel channel of await i fired (how: val | nil | close | send).
PFire(i, how) ==
    /\ fired' = [fired EXCEPT ![i] = how]
    /\ bad' = bad \cup (IF i \notin Ids \/ ck[i] # "await" \/ ca[i].kind = "await" THEN {"Harness"} ELSE {})
    /\ UNCHANGED <<pres, pavail, curposs, ck, cst, ca, cres, aux, canc, late, fine>>

\* Is the result that await i must return certainly available?
ResultReady(i) ==
    IF ca[i].q # 0 THEN ca[i].q \in pavail
    ELSE 0 \notin curposs /\ curposs \subseteq pavail

\* What is wrong at a point where no library-internal step is possible, no call other than
\* the awaits in B is in flight, and exactly the awaits in B are blocked.
QuietBad(B) ==
    UNION {   (IF i \in canc THEN {"AwaitStuck:ctx:" \o Desc(i)} ELSE {})
         \cup (IF fired[i] # "" THEN {"AwaitStuck:chan:" \o Desc(i)} ELSE {})
         \cup (IF ResultReady(i) THEN {"AwaitStuck:result:" \o Desc(i)} ELSE {})
         : i \in B \cap PendingK("await") }
    \cup (IF B \subseteq PendingK("await") /\ PendRepl = {} /\ PendingK("set") = {} THEN {} ELSE {"Harness"})

QuietOK(B) == QuietBad(B) = {}

PQuiet(B) ==
    /\ bad' = bad \cup QuietBad(B)
    /\ UNCHANGED <<pres, pavail, curposs, ck, cst, ca, cres, aux, canc, fired, late, fine>>

\* The controller saw this actor pass SpinK critical sections in a row while nothing else
\* moved and nothing was logged.
PSpin(actor) ==
    LET S == {i \in PendingK("await") : ca[i].actor = actor} IN
    /\ bad' = bad \cup (IF S = {} THEN {"Harness"} ELSE {"AwaitSpin:" \o Desc(i) : i \in S})
    /\ UNCHANGED <<pres, pavail, curposs, ck, cst, ca, cres, aux, canc, fired, late, fine>>

\* Call i panicked instead of returning (it never "returns that call's value and error" / never
\* returns true or false).
PPanic(i) ==
    /\ cst' = [cst EXCEPT ![i] = "done"]
    /\ bad' = bad \cup (IF i \notin Ids \/ cst[i] # "pending" THEN {"Harness"} ELSE {"Panic:" \o ck[i]})
    /\ UNCHANGED <<pres, pavail, curposs, ck, ca, cres, aux, canc, fired, late, fine>>

-----------------------------------------------------------------------------
(* The property *)

\* every condition other than the protocol ones belongs to C11
Protocol == {"Harness", "Unexplained"}
Safe_C11 == bad \subseteq Protocol
NoHarnessError == bad \cap Protocol = {}

Violated == bad

\* condition name (up to the first ":") -> property id
PropertyOf == [SecondTrue |-> "C11", NotFirst |-> "C11", NoWinner |-> "C11", ResultMismatch |-> "C11",
               WrongResult |-> "C11", NoCause |-> "C11", AwaitStuck |-> "C11", AwaitSpin |-> "C11", Panic |-> "C11",
               Harness |-> "HARNESS", Unexplained |-> "HARNESS"]
=============================================================================
