------------------------------- MODULE Promise -------------------------------
(* Implementation-shaped specification of promise.Promise (promise/promise.go) and            *)
(* promise.PromiseContainer (promise/container.go, on broadcast.Broadcast).                  *)
(*                                                                                          *)
(* Promise.SetResult is lock-free: one action per atomic step (isDone.Swap / field writes /  *)
(* close(done)); the verif hooks "promise.set" and "promise.close" make the two windows       *)
(* schedulable.  The three Promise.Await* are one select each.  The container's calls are    *)
(* one Broadcast.HoldLock critical section each; its three Await* loops are modelled as       *)
(* written: sample (promise, wait channel) under the lock, then either the prom==nil select   *)
(* or the inner prom.AwaitWithCancelCh(ctx, waitCh), then the `valErr == context.Canceled`    *)
(* re-loop.  Client programs, cancellation and channel firings are the environment.          *)
(*                                                                                          *)
(* Deviations of the pinned code from the statement are modelled as they are, behind         *)
(* constants:                                                                                *)
(*   FixF8 = FALSE : a result (v, context.Canceled) with a live context re-loops at once     *)
(*                   (busy loop);  TRUE: re-loop only if the replacement channel fired.      *)
(*   FixF9 = FALSE : with a promise set, AwaitWithErrCh / AwaitWithCancelCh wait on          *)
(*                   (ctx, replacement, result) only; TRUE: also on their own channel.       *)
(*                                                                                          *)
(*   FixO6 = FALSE : a container awaiter whose inner select finds the replacement channel AND *)
(*                   the sampled promise's done channel ready may take the result (observation *)
(*                   O6 below; the code re-checks the replacement channel only for a result    *)
(*                   whose error is context.Canceled);  TRUE (specs/promise/proposed-fix-3.diff,*)
(*                   not applied): it re-checks after every return of the inner await and      *)
(*                   follows the replacement.  With FixO6 the monitor is told "coarse" even in  *)
(*                   the Fine model: the sharper `late` reading then holds in every            *)
(*                   interleaving.                                                             *)
(*   Fine  = TRUE  : the granularity of sched.Exec.ParkUnl executions: the END of a critical  *)
(*                   section is a scheduling point too, i.e. the logged return of SetPromise / *)
(*                   container.SetResult is a step of its own (ReplRet), steps after the       *)
(*                   section took effect; the monitor is told (fine).  (An awaiter's sampling  *)
(*                   section and its select are separate actions at either setting; nothing    *)
(*                   lies between the last atomic step of Promise.SetResult and its return.)   *)
(*                   Model check only: schedules come from the coarse graph.                   *)
(*                                                                                          *)
(* Broadcast abstraction as in RWMutex.tla: wch[p] \in {"none","cur","closed"}.              *)
EXTENDS PromiseP, Integers

CONSTANTS
    Proms0,      \* sequence of [r, v, e]: promise q is created resolved with (v,e) iff r
    Cur0,        \* promise initially held by the container (0 = nil)
    Prog,        \* Prog[p]: sequence of [op, q, v, e, kind, c, f]
    FixF8, FixF9, FixO6,
    Fine,        \* TRUE: the return of a replacement is logged in a later step than its critical section
    EagerWake    \* TRUE: selects that can fire fire before anything else (controller granularity)

Procs == 1..Len(Prog)
PIds  == 1..Len(Proms0)
Id(p, j) == p * 100 + j

VARIABLES
    isDone, fld, closed,   \* per promise: done flag, result fields (<<>> = unwritten), done channel closed
    cur,                   \* PromiseContainer.promise (0 = nil)
    wch,                   \* per process: sampled replacement channel: "none" | "cur" | "closed"
    got,                   \* per process: the promise sampled in the last critical section
    pc, ip,                \* per process: program counter, index of the current/next op
    ctxc,                  \* per process: the context of the await in flight is cancelled
    chf                    \* per process: "" | how the channel of the await in flight fired

xvars == <<isDone, fld, closed, cur, wch, got, pc, ip, ctxc, chf>>
vars == <<xvars, pvars>>

Op(p) == Prog[p][ip[p]]
CurId(p) == Id(p, ip[p])
Done(p) == ip[p] > Len(Prog[p])

Init ==
    /\ PInitScenF(Proms0, Cur0, Fine /\ ~FixO6)
    /\ isDone = [q \in PIds |-> Proms0[q].r]
    /\ fld = [q \in PIds |-> IF Proms0[q].r THEN <<Proms0[q].v, Proms0[q].e>> ELSE <<>>]
    /\ closed = [q \in PIds |-> Proms0[q].r]
    /\ cur = Cur0
    /\ wch = [p \in Procs |-> "none"]
    /\ got = [p \in Procs |-> 0]
    /\ pc = [p \in Procs |-> "idle"]
    /\ ip = [p \in Procs |-> 1]
    /\ ctxc = [p \in Procs |-> FALSE]
    /\ chf = [p \in Procs |-> ""]

Bcast(w) == [q \in Procs |-> IF w[q] = "cur" THEN "closed" ELSE w[q]]
GetCh(w, p) == [w EXCEPT ![p] = "cur"]

Selecting == {"psel", "nsel", "isel"}
BlockedIds == {CurId(q) : q \in {r \in Procs : pc[r] \in Selecting}}

HasCh(p) == Op(p).kind # "await" /\ chf[p] # ""

\* what an await returns when its own channel fires: Promise.* / container prom==nil branch
ChRet(p, container) ==
    IF Op(p).kind = "errch"
    THEN (CASE chf[p] = "val" -> <<0, "X">> [] chf[p] = "nil" -> <<0, "nil">> [] OTHER -> <<0, "C">>)
    ELSE IF container THEN <<0, "nil">> ELSE <<0, "C">>

-----------------------------------------------------------------------------
CanWake(p) ==
    \/ pc[p] = "swap"
    \/ pc[p] = "psel" /\ (closed[Op(p).q] \/ ctxc[p] \/ HasCh(p))
    \/ pc[p] = "nsel" /\ (ctxc[p] \/ wch[p] = "closed" \/ HasCh(p))
    \/ pc[p] = "isel" /\ (ctxc[p] \/ wch[p] = "closed" \/ closed[got[p]] \/ (FixF9 /\ HasCh(p)))
WakeAny == \E p \in Procs : CanWake(p)
Gate == ~(EagerWake /\ WakeAny)

Advance(p) == ip' = [ip EXCEPT ![p] = @ + 1]

RetAwait(p, pair) ==
    /\ pc' = [pc EXCEPT ![p] = "idle"]
    /\ Advance(p)
    /\ PRetAwait(CurId(p), pair[1], pair[2])
    /\ UNCHANGED <<isDone, fld, closed, cur, wch, got, ctxc, chf>>

(* Environment: the client issues its next operation. *)
Call(p) ==
    /\ Gate
    /\ pc[p] = "idle" /\ ~Done(p)
    /\ LET o == Op(p) IN
       CASE o.op = "set" ->
              /\ pc' = [pc EXCEPT ![p] = "swap"]
              /\ PCallSet(CurId(p), o.q, o.v, o.e, p)
              /\ UNCHANGED <<ctxc, chf>>
         [] o.op = "cset" ->
              /\ pc' = [pc EXCEPT ![p] = "csetcs"]
              /\ PCallCset(CurId(p), o.q, o.v, o.e, p)
              /\ UNCHANGED <<ctxc, chf>>
         [] o.op = "setp" ->
              /\ pc' = [pc EXCEPT ![p] = "setpcs"]
              /\ PCallSetp(CurId(p), o.q, p)
              /\ UNCHANGED <<ctxc, chf>>
         [] o.op = "await" ->
              /\ pc' = [pc EXCEPT ![p] = IF o.q = 0 THEN "acs" ELSE "psel"]
              /\ ctxc' = [ctxc EXCEPT ![p] = FALSE]
              /\ chf' = [chf EXCEPT ![p] = ""]
              /\ PCallAwait(CurId(p), o.q, o.kind, p)
    /\ UNCHANGED <<isDone, fld, closed, cur, wch, got, ip>>

-----------------------------------------------------------------------------
(* Promise.SetResult (promise.go:46-56) *)

\* p.isDone.Swap(true); a loser returns false at once
Swap(p) ==
    /\ pc[p] = "swap"
    /\ LET q == Op(p).q IN
       IF isDone[q]
       THEN /\ pc' = [pc EXCEPT ![p] = "idle"]
            /\ Advance(p)
            /\ PRetSet(CurId(p), FALSE)
            /\ UNCHANGED <<isDone, fld, closed, cur, wch, got, ctxc, chf>>
       ELSE /\ isDone' = [isDone EXCEPT ![q] = TRUE]
            /\ pc' = [pc EXCEPT ![p] = "set1"]
            /\ UNCHANGED <<fld, closed, cur, wch, got, ip, ctxc, chf, pvars>>

\* p.result = &val; p.err = err
SetWrite(p) ==
    /\ Gate
    /\ pc[p] = "set1"
    /\ fld' = [fld EXCEPT ![Op(p).q] = <<Op(p).v, Op(p).e>>]
    /\ pc' = [pc EXCEPT ![p] = "set2"]
    /\ UNCHANGED <<isDone, closed, cur, wch, got, ip, ctxc, chf, pvars>>

\* close(p.done); return true
SetClose(p) ==
    /\ Gate
    /\ pc[p] = "set2"
    /\ closed' = [closed EXCEPT ![Op(p).q] = TRUE]
    /\ pc' = [pc EXCEPT ![p] = "idle"]
    /\ Advance(p)
    /\ PRetSet(CurId(p), TRUE)
    /\ UNCHANGED <<isDone, fld, cur, wch, got, ctxc, chf>>

(* Promise.Await / AwaitWithErrCh / AwaitWithCancelCh: one select *)
PWakeRes(p) == pc[p] = "psel" /\ closed[Op(p).q] /\ RetAwait(p, fld[Op(p).q])
PWakeCtx(p) == pc[p] = "psel" /\ ctxc[p] /\ RetAwait(p, <<0, "C">>)
PWakeCh(p)  == pc[p] = "psel" /\ HasCh(p) /\ RetAwait(p, ChRet(p, FALSE))

-----------------------------------------------------------------------------
(* PromiseContainer *)

\* the end of a replacement's critical section: coarse: the call returns in the same step;
\* Fine: the goroutine parks (verifhook.Unlocked), the return is logged by a later step
ReplDone(p) ==
    IF Fine
    THEN /\ pc' = [pc EXCEPT ![p] = "replret"]
         /\ UNCHANGED <<ip, pvars>>
    ELSE /\ pc' = [pc EXCEPT ![p] = "idle"]
         /\ Advance(p)
         /\ PRetRepl(CurId(p))

ReplRet(p) ==
    /\ Gate
    /\ pc[p] = "replret"
    /\ pc' = [pc EXCEPT ![p] = "idle"]
    /\ Advance(p)
    /\ PRetRepl(CurId(p))
    /\ UNCHANGED <<isDone, fld, closed, cur, wch, got, ctxc, chf>>

\* SetResult (container.go:49-56): prom := NewPromiseWithResult; HoldLock{promise = prom; broadcast()}
CsetCS(p) ==
    /\ Gate
    /\ pc[p] = "csetcs"
    /\ LET q == Op(p).q IN
       /\ isDone' = [isDone EXCEPT ![q] = TRUE]
       /\ fld' = [fld EXCEPT ![q] = <<Op(p).v, Op(p).e>>]
       /\ closed' = [closed EXCEPT ![q] = TRUE]
       /\ cur' = q
    /\ wch' = Bcast(wch)
    /\ ReplDone(p)
    /\ UNCHANGED <<got, ctxc, chf>>

\* SetPromise (container.go:38-45)
SetpCS(p) ==
    /\ Gate
    /\ pc[p] = "setpcs"
    /\ IF cur # Op(p).q
       THEN cur' = Op(p).q /\ wch' = Bcast(wch)
       ELSE UNCHANGED <<cur, wch>>
    /\ ReplDone(p)
    /\ UNCHANGED <<isDone, fld, closed, got, ctxc, chf>>

\* the critical section at the top of each Await* loop: prom, waitCh = p.promise, getWaitCh()
ACS(p) ==
    /\ Gate
    /\ pc[p] = "acs"
    /\ got' = [got EXCEPT ![p] = cur]
    /\ wch' = GetCh(wch, p)
    /\ pc' = [pc EXCEPT ![p] = IF cur = 0 THEN "nsel" ELSE "isel"]
    /\ UNCHANGED <<isDone, fld, closed, cur, ip, ctxc, chf, pvars>>

Reloop(p) ==
    /\ pc' = [pc EXCEPT ![p] = "acs"]
    /\ UNCHANGED <<isDone, fld, closed, cur, wch, got, ip, ctxc, chf, pvars>>

\* prom == nil: select on ctx / own channel / replacement
NWakeCtx(p) == pc[p] = "nsel" /\ ctxc[p] /\ RetAwait(p, <<0, "C">>)
NWakeCh(p)  == pc[p] = "nsel" /\ HasCh(p) /\ RetAwait(p, ChRet(p, TRUE))
NWakeW(p)   == pc[p] = "nsel" /\ wch[p] = "closed" /\ Reloop(p)

\* prom != nil: prom.AwaitWithCancelCh(ctx, waitCh), then the code after it
IWakeCtx(p) == pc[p] = "isel" /\ ctxc[p] /\ RetAwait(p, <<0, "C">>)
IWakeW(p) ==
    /\ pc[p] = "isel" /\ wch[p] = "closed"
    /\ IF ctxc[p] THEN RetAwait(p, <<0, "C">>) ELSE Reloop(p)
IWakeRes(p) ==
    /\ pc[p] = "isel" /\ closed[got[p]]
    /\ LET pair == fld[got[p]] IN
       IF FixO6 /\ wch[p] = "closed"      \* proposed fix 3: replaced meanwhile -> follow (or give up if cancelled)
       THEN IF ctxc[p] THEN RetAwait(p, <<0, "C">>) ELSE Reloop(p)
       ELSE IF pair[2] # "C" \/ ctxc[p] THEN RetAwait(p, pair)
       ELSE IF FixF8 /\ wch[p] # "closed" THEN RetAwait(p, pair)
       ELSE Reloop(p)        \* F8: nothing to wait for -> the loop spins
IWakeCh(p) == FixF9 /\ pc[p] = "isel" /\ HasCh(p) /\ RetAwait(p, ChRet(p, TRUE))

-----------------------------------------------------------------------------
(* Environment: cancellation, channel firing (while the await is in flight) *)
InFlight(p) == pc[p] \in {"psel", "acs", "nsel", "isel"}

Cancel(p) ==
    /\ Gate
    /\ InFlight(p) /\ Op(p).c /\ ~ctxc[p]
    /\ ctxc' = [ctxc EXCEPT ![p] = TRUE]
    /\ PCancel(CurId(p))
    /\ UNCHANGED <<isDone, fld, closed, cur, wch, got, pc, ip, chf>>

Fire(p) ==
    /\ Gate
    /\ InFlight(p) /\ Op(p).kind # "await" /\ Op(p).f # "" /\ chf[p] = ""
    /\ chf' = [chf EXCEPT ![p] = Op(p).f]
    /\ PFire(CurId(p), Op(p).f)
    /\ UNCHANGED <<isDone, fld, closed, cur, wch, got, pc, ip, ctxc>>

-----------------------------------------------------------------------------
Next ==
    \E p \in Procs :
        \/ Call(p) \/ Cancel(p) \/ Fire(p)
        \/ Swap(p) \/ SetWrite(p) \/ SetClose(p)
        \/ PWakeRes(p) \/ PWakeCtx(p) \/ PWakeCh(p)
        \/ CsetCS(p) \/ SetpCS(p) \/ ReplRet(p) \/ ACS(p)
        \/ NWakeCtx(p) \/ NWakeCh(p) \/ NWakeW(p)
        \/ IWakeCtx(p) \/ IWakeW(p) \/ IWakeRes(p) \/ IWakeCh(p)

Spec == Init /\ [][Next]_vars

\* no library-internal step is possible: every call in flight is blocked in a select
LibQuiet ==
    /\ \A p \in Procs : pc[p] \in Selecting \cup {"idle"}
    /\ ~WakeAny

-----------------------------------------------------------------------------
(* Invariants *)
TypeOK ==
    /\ \A p \in Procs : wch[p] \in {"none", "cur", "closed"}
    /\ cur \in PIds \cup {0}
    /\ \A q \in PIds : closed[q] => isDone[q]

\* the fields are written before the close that publishes them
FieldsBeforeClose == \A q \in PIds : closed[q] => fld[q] # <<>>

\* the monitor's event-level conditions hold on the model
\* O6 (DESIGN §8.3): without eager wake-ups a container awaiter whose select finds BOTH the
\* replacement channel and the old promise's done channel ready (the promise was replaced first and
\* resolved afterwards, the awaiter's goroutine was not scheduled in between) may return the replaced
\* promise's late result -- Go's select chooses.  PromiseP's "follows replacements" condition
\* (WrongResult:container:*, via `late`) is exact at the controller's granularity (EagerWake), where
\* the awaiter always wakes at the replacement; in the full interleaving it is expected and tolerated.
\* Fine: the monitor itself applies that condition to coarse executions only (PromiseP header), so
\* every condition must hold as it stands, in the full interleaving.
LateRace == IF EagerWake \/ Fine \/ FixO6 THEN {} ELSE {n \in bad : Len(n) >= 21 /\ SubSeq(n, 1, 21) = "WrongResult:container"}
ModelSafe == bad \ LateRace = {}

\* what the pinned code is known to get wrong at quiescent points (F9)
KnownQuiet ==
    IF FixF9 THEN {}
    ELSE {"AwaitStuck:chan:container:errch", "AwaitStuck:chan:container:cancelch"}

\* C11 at quiescent points, through the monitor's own definition
QuietInv == LibQuiet => QuietBad(BlockedIds) \subseteq KnownQuiet
QuietInvStrict == LibQuiet => QuietOK(BlockedIds)

\* the container's awaiters re-loop only because a replacement was signalled (violated by F8)
NoBusyLoop ==
    [][\A p \in Procs : (pc[p] \in {"isel", "nsel"} /\ pc'[p] = "acs") => wch[p] = "closed"]_vars
=============================================================================
