--------------------------- MODULE PromiseXTrace ---------------------------
(* X-level trace validation (advisory, DESIGN §2.5): executions of ONE scenario (the constants  *)
(* Proms0, Cur0, Prog) recorded from the real promise code with every controller step logged    *)
(* (-logsteps) are replayed through the actions of Promise.tla itself.                          *)
(*                                                                                              *)
(* "step" event (one controller move): there must be no wake-up pending in the spec (the real   *)
(* goroutines take every wake-up within the step that enabled it) and the move must be an       *)
(* enabled action of the spec:                                                                  *)
(*     call:cN   -> Call(N)                 cancel:cN -> Cancel(N)        fire:cN -> Fire(N)      *)
(*     grant:cN  -> the action client N is parked at: SetWrite | SetClose (atomic hooks          *)
(*                  promise.set / promise.close), CsetCS | SetpCS | ACS (Broadcast.HoldLock)     *)
(* Transient steps that the goroutines perform within the same controller step and that do NOT  *)
(* end in a logged return are taken eagerly by action composition (\cdot, TLC option             *)
(* tlc2.tool.impl.Tool.cdot): the winning Swap of SetResult (runs on to the promise.set hook)    *)
(* and the re-loops of the container awaiters (NWakeW, IWakeW, IWakeRes -> back to the lock).    *)
(* Transient steps that DO end in a return (PWake*, NWakeCtx/Ch, IWakeCtx/W/Res/Ch, the losing   *)
(* Swap) are taken when the "ret" event is consumed: the event must be an enabled returning      *)
(* wake-up of that process in the spec's current state WITH EXACTLY THE LOGGED RESULT.  This     *)
(* (instead of taking them eagerly and asserting the result afterwards, as the csync XTrace     *)
(* specs do) is needed because Go's select chooses among the ready cases when an await starts    *)
(* with both its context cancelled and a result available: the spec allows both, the trace says  *)
(* which one happened.  That none of them is left over is checked at the next step / quiet.      *)
(*                                                                                              *)
(* The remaining API-level events are assertions on the spec's state: a logged call must be the  *)
(* pending call of the monitor with the logged arguments; the return of SetResult(true) /        *)
(* SetPromise / container.SetResult must already be that call's state; a logged cancel / fire    *)
(* must be recorded; a quiescent observation must be LibQuiet with exactly the logged blocked    *)
(* set.  A mismatch is DRIFT: the code no longer takes the steps the spec describes (or the spec *)
(* is wrong); it never is a verdict by itself.  The rest of a drifted run is skipped.            *)
EXTENDS Promise, TraceLib

VARIABLES l, drift, nd, live    \* position, recorded drifts (bounded list), number of drifts, run still being followed
tv == <<l, drift, nd, live>>

XReset ==
    /\ pres' = ScenPres(Proms0) /\ pavail' = ScenAvail(Proms0) /\ curposs' = {Cur0} /\ late' = {}
    /\ ck' = <<>> /\ cst' = <<>> /\ ca' = <<>> /\ cres' = <<>> /\ aux' = <<>>
    /\ canc' = {} /\ fired' = <<>> /\ bad' = {} /\ fine' = FALSE   \* -logsteps executions are coarse
    /\ isDone' = [q \in PIds |-> Proms0[q].r]
    /\ fld' = [q \in PIds |-> IF Proms0[q].r THEN <<Proms0[q].v, Proms0[q].e>> ELSE <<>>]
    /\ closed' = [q \in PIds |-> Proms0[q].r]
    /\ cur' = Cur0
    /\ wch' = [p \in Procs |-> "none"]
    /\ got' = [p \in Procs |-> 0]
    /\ pc' = [p \in Procs |-> "idle"]
    /\ ip' = [p \in Procs |-> 1]
    /\ ctxc' = [p \in Procs |-> FALSE]
    /\ chf' = [p \in Procs |-> ""]

TInit == Init /\ l = 1 /\ drift = <<>> /\ nd = 0 /\ live = TRUE

\* "call:c2" -> "call", 2
Kind(lbl) == IF Len(lbl) > 5 /\ SubSeq(lbl, 1, 5) = "call:" THEN "call"
             ELSE IF Len(lbl) > 6 /\ SubSeq(lbl, 1, 6) = "grant:" THEN "grant"
             ELSE IF Len(lbl) > 7 /\ SubSeq(lbl, 1, 7) = "cancel:" THEN "cancel"
             ELSE IF Len(lbl) > 5 /\ SubSeq(lbl, 1, 5) = "fire:" THEN "fire" ELSE "?"
Digit(c) == CASE c = "1" -> 1 [] c = "2" -> 2 [] c = "3" -> 3 [] c = "4" -> 4 [] c = "5" -> 5 [] c = "6" -> 6
              [] c = "7" -> 7 [] c = "8" -> 8 [] c = "9" -> 9 [] OTHER -> 0
Proc(lbl) == Digit(SubSeq(lbl, Len(lbl), Len(lbl)))

CanAct(k, p) ==
    /\ p \in Procs
    /\ CASE k = "call"   -> pc[p] = "idle" /\ ~Done(p)
         [] k = "grant"  -> pc[p] \in {"set1", "set2", "csetcs", "setpcs", "acs"}
         [] k = "cancel" -> InFlight(p) /\ Op(p).c /\ ~ctxc[p]
         [] k = "fire"   -> InFlight(p) /\ Op(p).kind # "await" /\ Op(p).f # "" /\ chf[p] = ""
         [] OTHER -> FALSE

Act(k, p) ==
    /\ UNCHANGED tv
    /\ CASE k = "call"   -> Call(p)
         [] k = "grant"  -> SetWrite(p) \/ SetClose(p) \/ CsetCS(p) \/ SetpCS(p) \/ ACS(p)
         [] k = "cancel" -> Cancel(p)
         [] k = "fire"   -> Fire(p)

-----------------------------------------------------------------------------
(* transient steps that do not end in a return: taken eagerly *)
NonRet(p) ==
    \/ pc[p] = "swap" /\ ~isDone[Op(p).q]
    \/ pc[p] = "nsel" /\ wch[p] = "closed"
    \/ pc[p] = "isel" /\ ~ctxc[p] /\ wch[p] = "closed"
    \/ pc[p] = "isel" /\ ~ctxc[p] /\ closed[got[p]] /\ fld[got[p]][2] = "C" /\ ~FixF8

NonRetAct(p) ==
    \/ (pc[p] = "swap" /\ ~isDone[Op(p).q] /\ Swap(p))
    \/ NWakeW(p)
    \/ (~ctxc[p] /\ IWakeW(p))
    \/ (pc[p] = "isel" /\ ~ctxc[p] /\ closed[got[p]] /\ fld[got[p]][2] = "C" /\ (~FixF8 \/ wch[p] = "closed") /\ IWakeRes(p))

\* one eager transient step (of the least such process), or nothing
T ==
    /\ UNCHANGED tv
    /\ IF \E q \in Procs : NonRet(q)
       THEN LET p == CHOOSE q \in Procs : NonRet(q) /\ \A r \in Procs : NonRet(r) => q <= r
            IN NonRetAct(p)
       ELSE UNCHANGED vars

(* transient steps that end in the return of an await: taken at the "ret" event, which must    *)
(* name a result that an enabled wake-up of the spec produces                                  *)
IResReturns(p) == fld[got[p]][2] # "C" \/ ctxc[p] \/ (FixF8 /\ wch[p] # "closed")

CanRet(p, pr) ==
    \/ pc[p] = "psel" /\ closed[Op(p).q] /\ fld[Op(p).q] = pr
    \/ pc[p] = "psel" /\ ctxc[p] /\ pr = <<0, "C">>
    \/ pc[p] = "psel" /\ HasCh(p) /\ pr = ChRet(p, FALSE)
    \/ pc[p] = "nsel" /\ ctxc[p] /\ pr = <<0, "C">>
    \/ pc[p] = "nsel" /\ HasCh(p) /\ pr = ChRet(p, TRUE)
    \/ pc[p] = "isel" /\ ctxc[p] /\ pr = <<0, "C">>
    \/ pc[p] = "isel" /\ closed[got[p]] /\ fld[got[p]] = pr /\ IResReturns(p)
    \/ pc[p] = "isel" /\ FixF9 /\ HasCh(p) /\ pr = ChRet(p, TRUE)

AwRet(p, pr) ==
    \/ (pc[p] = "psel" /\ closed[Op(p).q] /\ fld[Op(p).q] = pr /\ PWakeRes(p))
    \/ (pr = <<0, "C">> /\ PWakeCtx(p))
    \/ (pc[p] = "psel" /\ HasCh(p) /\ pr = ChRet(p, FALSE) /\ PWakeCh(p))
    \/ (pr = <<0, "C">> /\ NWakeCtx(p))
    \/ (pc[p] = "nsel" /\ HasCh(p) /\ pr = ChRet(p, TRUE) /\ NWakeCh(p))
    \/ (pr = <<0, "C">> /\ IWakeCtx(p))
    \/ (pc[p] = "isel" /\ closed[got[p]] /\ fld[got[p]] = pr /\ IResReturns(p) /\ IWakeRes(p))
    \/ (pc[p] = "isel" /\ FixF9 /\ HasCh(p) /\ pr = ChRet(p, TRUE) /\ IWakeCh(p))

-----------------------------------------------------------------------------
Fin == UNCHANGED <<vars, drift, nd, live>> /\ l' = l + 1
Adv == UNCHANGED <<drift, nd, live>> /\ l' = l + 1

\* every drift is counted; only the first MaxRecords are kept (the list is part of every later state)
MaxRecords == 50
Drift(why) ==
    /\ drift' = IF Len(drift) < MaxRecords THEN Append(drift, [run |-> Trace[l].run, seq |-> Trace[l].seq, why |-> why]) ELSE drift
    /\ nd' = nd + 1
    /\ live' = FALSE
    /\ l' = l + 1
    /\ UNCHANGED vars

Bool2Str(b) == IF b THEN "true" ELSE "false"

CallOK(e) ==
    /\ e.xid \in Ids /\ cst[e.xid] = "pending" /\ ck[e.xid] = e.op /\ ca[e.xid].q = e.q
    /\ e.op \in {"set", "cset"} => ca[e.xid].v = e.v /\ ca[e.xid].e = e.e
    /\ e.op = "await" => ca[e.xid].kind = e.kind

TStep ==
    /\ l <= Len(Trace)
    /\ LET e == Trace[l] IN
       CASE e.ev = "reset" -> XReset /\ l' = l + 1 /\ live' = TRUE /\ UNCHANGED <<drift, nd>>
         [] ~live -> UNCHANGED <<vars, drift, nd, live>> /\ l' = l + 1
         [] e.ev = "init" ->
              IF e.cur = Cur0 /\ e.proms = Proms0 THEN Fin ELSE Drift("the scenario of the run is not the scenario of the spec")
         [] e.ev = "step" ->
              LET k == Kind(e.label) p == Proc(e.label) IN
              IF WakeAny THEN Drift("a wake-up is pending in the spec that the code did not take, before " \o e.label)
              ELSE IF CanAct(k, p) THEN Act(k, p) \cdot T \cdot T \cdot T \cdot T \cdot T \cdot T \cdot T \cdot Fin
              ELSE Drift("step not enabled: " \o e.label)
         [] e.ev = "call" ->
              IF CallOK(e) THEN Fin ELSE Drift("logged call is not the call the spec issued")
         [] e.ev = "ret" ->
              LET p == e.xid \div 100 IN
              IF ~(p \in Procs /\ e.xid \in Ids) THEN Drift("return of a call the spec does not know")
              ELSE IF e.op = "await" THEN
                   IF cst[e.xid] = "pending" /\ CurId(p) = e.xid /\ CanRet(p, <<e.v, e.e>>)
                   THEN AwRet(p, <<e.v, e.e>>) /\ Adv
                   ELSE Drift("await return not explained by an enabled wake-up of the spec")
              ELSE IF e.op = "set" /\ cst[e.xid] = "pending" THEN   \* only the losing swap returns as a transient step
                   IF CurId(p) = e.xid /\ pc[p] = "swap" /\ isDone[Op(p).q] /\ ~e.ok
                   THEN Swap(p) /\ Adv
                   ELSE Drift("SetResult return not explained by the spec")
              ELSE \* SetResult(true), SetPromise, container.SetResult: the return is part of the granted action
                   IF cst[e.xid] = "done" /\ ck[e.xid] = e.op /\ (e.op = "set" => cres[e.xid] = Bool2Str(e.ok))
                   THEN Fin ELSE Drift("return not explained by the spec")
         [] e.ev = "cancel" ->
              IF e.xid \in canc THEN Fin ELSE Drift("cancel not recorded by the spec")
         [] e.ev = "fire" ->
              IF e.xid \in Ids /\ fired[e.xid] = e.how THEN Fin ELSE Drift("channel firing not recorded by the spec")
         [] e.ev = "quiet" ->
              IF LibQuiet /\ BlockedIds = SeqToSet(e.xblk) THEN Fin ELSE Drift("quiescent observation differs")
         [] e.ev = "panic" -> Drift("panic out of the library")
         [] e.ev = "teardown" -> UNCHANGED <<vars, drift, nd>> /\ live' = FALSE /\ l' = l + 1
         [] OTHER -> Fin

TFinish ==
    /\ l = Len(Trace) + 1
    /\ JsonSerialize(IOEnv.VERDICT_FILE, [drift |-> drift, ndrift |-> nd, consumed |-> Len(Trace), total |-> Len(Trace)])
    /\ l' = l + 1
    /\ UNCHANGED <<vars, drift, nd, live>>

TNext == TStep \/ TFinish
=============================================================================
