---------------------------- MODULE PromisePTrace ----------------------------
(* Replays an ndjson trace recorded from the real promise code through the PromiseP monitor. *)
(* Deterministic: one state per event; every failed condition is collected and written to    *)
(* VERDICT_FILE.                                                                            *)
EXTENDS PromiseP, TraceLib

VARIABLES l, viol, seen

tvars == <<l, viol, seen>>

TInit == PInit /\ l = 1 /\ viol = <<>> /\ seen = {}

Fresh == Violated \ seen
\* Every failed condition is recorded, but the list is bounded: beyond MaxRecords records only
\* conditions with a name not yet recorded are added (a tree with an open defect produces tens
\* of thousands of identical findings, and the growing list would dominate validation time).
MaxRecords == 400
RecordedNames == UNION {viol[k].names : k \in 1..Len(viol)}
Recorded ==
    IF l > 1 /\ Fresh # {} /\ (Len(viol) < MaxRecords \/ ~(Fresh \subseteq RecordedNames))
    THEN Append(viol, [run |-> Trace[l-1].run, seq |-> Trace[l-1].seq, names |-> Fresh, l |-> l - 1])
    ELSE viol

Unexplained ==
    /\ bad' = bad \cup {"Unexplained"}
    /\ UNCHANGED <<pres, pavail, curposs, late, ck, cst, ca, cres, aux, canc, fired, fine>>

Apply(e) ==
    CASE e.ev = "reset"  -> PReset
      [] e.ev = "init"   -> PScen(e.proms, e.cur)
      \* granularity of the execution (PromiseP header); a run without it keeps fine = TRUE (weaker reading)
      [] e.ev = "cfg"    -> PCfg(e.fine)
      [] e.ev = "call"   ->
            CASE e.op = "set"   -> PCallSet(e.id, e.q, e.v, e.e, e.actor)
              [] e.op = "cset"  -> PCallCset(e.id, e.q, e.v, e.e, e.actor)
              [] e.op = "setp"  -> PCallSetp(e.id, e.q, e.actor)
              [] e.op = "await" -> PCallAwait(e.id, e.q, e.kind, e.actor)
              [] OTHER          -> Unexplained
      [] e.ev = "ret"    ->
            CASE e.op = "set"   -> PRetSet(e.id, e.ok)
              [] e.op \in {"cset", "setp"} -> PRetRepl(e.id)
              [] e.op = "await" -> PRetAwait(e.id, e.v, e.e)
              [] OTHER          -> Unexplained
      [] e.ev = "panic"  -> PPanic(e.id)
      [] e.ev = "cancel" -> PCancel(e.id)
      [] e.ev = "fire"   -> PFire(e.id, e.how)
      [] e.ev = "quiet"  -> PQuiet(SeqToSet(e.blk))
      [] e.ev = "spin"   -> PSpin(e.actor)
      \* "step" / "teardown": controller steps logged for X-level trace validation (PromiseXTrace.tla)
      [] e.ev \in {"leak", "note", "end", "step", "teardown"} -> UNCHANGED pvars
      [] OTHER           -> Unexplained

TStep ==
    /\ l <= Len(Trace)
    /\ viol' = Recorded
    /\ seen' = IF Trace[l].ev = "reset" THEN {} ELSE seen \cup Violated
    /\ Apply(Trace[l])
    /\ l' = l + 1

TFinish ==
    /\ l = Len(Trace) + 1
    /\ viol' = Recorded
    /\ WriteVerdict(viol', Len(Trace))
    /\ l' = l + 1
    /\ UNCHANGED <<pvars, seen>>

TNext == TStep \/ TFinish
TSpec == TInit /\ [][TNext]_<<pvars, tvars>>
=============================================================================
