------------------------------- MODULE CsyncP -------------------------------
(* Property monitor for csync.Mutex / csync.RWMutex (C01, C02).                              *)
(*                                                                                          *)
(* API-level state only: which calls are pending, which hold the lock, which release        *)
(* functions were called how often, which contexts were cancelled.  The events are what a   *)
(* client can observe (call, return, release call, cancel) plus the controller's exact      *)
(* observations (blocked set at a library-quiescent point, final probes).  The operators    *)
(* are used (a) by the implementation-shaped specs Mutex.tla / RWMutex.tla, which fire them *)
(* at their API-visible actions, and (b) by CsyncPTrace.tla, which fires them from events   *)
(* recorded from the real code.  A Mutex is the special case "every call is a writer".      *)
EXTENDS Naturals, FiniteSets, Sequences, TLC

VARIABLES
    st,     \* call id -> "pending" | "held" | "released" | "failed" | "canceled"
    md,     \* call id -> "r" | "w"
    ahead,  \* read call id -> writers that were observed blocked when the read call started
    canc,   \* call ids whose context has been cancelled
    rels,   \* call id -> number of calls of its release function
    relin,  \* number of release calls in progress (called, not yet returned)
    bad     \* names of event-level conditions that failed (sticky)

pvars == <<st, md, ahead, canc, rels, relin, bad>>

PInit ==
    /\ st = <<>> /\ md = <<>> /\ ahead = <<>> /\ rels = <<>>
    /\ canc = {} /\ relin = 0 /\ bad = {}

PReset ==
    /\ st' = <<>> /\ md' = <<>> /\ ahead' = <<>> /\ rels' = <<>>
    /\ canc' = {} /\ relin' = 0 /\ bad' = {}

Ids      == DOMAIN st
Held     == {i \in Ids : st[i] = "held"}
HeldW    == {i \in Held : md[i] = "w"}
HeldR    == {i \in Held : md[i] = "r"}
Pending  == {i \in Ids : st[i] = "pending"}

\* Could the lock be granted to blocked call b, under the lock's own rules, given that B is
\* the set of blocked (waiting) calls?
Grantable(b, B) ==
    IF md[b] = "w" THEN Held = {}
    ELSE HeldW = {} /\ {w \in B : md[w] = "w"} = {}

-----------------------------------------------------------------------------
(* Events *)

\* A call starts.  blkW: the calls observed blocked inside Lock at this moment.
PCall(i, m, blk) ==
    /\ st' = (i :> "pending") @@ st
    /\ md' = (i :> m) @@ md
    /\ rels' = (i :> 0) @@ rels
    /\ ahead' = (i :> IF m = "r" THEN {w \in blk : w \in Ids /\ md[w] = "w" /\ st[w] = "pending"} ELSE {}) @@ ahead
    /\ bad' = bad \cup (IF i \in Ids THEN {"Harness"} ELSE {})
    /\ UNCHANGED <<canc, relin>>

\* A call returns.  res: "ok" | "false" (TryLock) | "canceled".  nr, nw: the harness-owned
\* occupancy counters after this caller incremented them (only meaningful for "ok").
PRet(i, res, nr, nw) ==
    LET nst == IF res = "ok" THEN "held" ELSE IF res = "false" THEN "failed" ELSE "canceled"
        st2 == [st EXCEPT ![i] = nst]
        held2 == {j \in Ids : st2[j] = "held"}
    IN
    /\ st' = st2
    /\ bad' = bad
        \cup (IF i \notin Ids \/ st[i] # "pending" THEN {"Harness"} ELSE {})
        \cup (IF res = "canceled" /\ i \notin canc THEN {"SpuriousCancel"} ELSE {})
        \* writer preference: a read acquire that started while a writer was waiting is not
        \* granted before that writer acquired or gave up
        \cup (IF res = "ok" /\ md[i] = "r" /\ \E w \in ahead[i] : st[w] = "pending"
              THEN {"WriterPref"} ELSE {})
        \* a TryLock that fails although nobody holds the lock, nobody else is calling and no release
        \* is in progress: something other than a successful acquire changed who holds the lock
        \cup (IF res = "false" /\ Held = {} /\ Pending = {i} /\ relin = 0 THEN {"Phantom"} ELSE {})
        \cup (IF res = "ok" /\ (nr # Cardinality({j \in held2 : md[j] = "r"})
                               \/ nw # Cardinality({j \in held2 : md[j] = "w"}))
              THEN {"Occ"} ELSE {})
    /\ UNCHANGED <<md, ahead, canc, rels, relin>>

\* The release function of call i is about to be called (the first such call ends the hold).
PRelCall(i) ==
    /\ rels' = [rels EXCEPT ![i] = @ + 1]
    /\ st' = IF st[i] = "held" THEN [st EXCEPT ![i] = "released"] ELSE st
    /\ bad' = bad \cup (IF st[i] \notin {"held", "released"} THEN {"Harness"} ELSE {})
    /\ relin' = relin + 1
    /\ UNCHANGED <<md, ahead, canc>>

\* a repeated release: called and returned at once (X specs: one step)
PRelNoop(i) ==
    /\ rels' = [rels EXCEPT ![i] = @ + 1]
    /\ bad' = bad \cup (IF st[i] # "released" THEN {"Harness"} ELSE {})
    /\ UNCHANGED <<st, md, ahead, canc, relin>>

\* ... and has returned
PRelRet(i) ==
    /\ relin' = IF relin > 0 THEN relin - 1 ELSE 0
    /\ UNCHANGED <<st, md, ahead, canc, rels, bad>>

\* A documented call panicked (e.g. "unlock of unlocked MutexLocker" when two callers hold a Mutex)
PPanic ==
    /\ bad' = bad \cup {"Panic"}
    /\ relin' = 0
    /\ UNCHANGED <<st, md, ahead, canc, rels>>

\* The context of call i is cancelled.
PCancel(i) ==
    /\ canc' = canc \cup {i}
    /\ UNCHANGED <<st, md, ahead, rels, relin, bad>>

\* What must hold at a point where no library-internal step is possible and exactly the
\* calls in B are blocked inside Lock.
QuietOK(B) ==
    /\ \A b \in B : ~Grantable(b, B)      \* a grantable waiter would have been granted
    /\ B \cap canc = {}                   \* a cancelled waiter has returned

QuietBad(B) ==
    (IF \E b \in B : Grantable(b, B) THEN {"Stuck"} ELSE {})
    \cup (IF B \cap canc # {} THEN {"CancelStuck"} ELSE {})
    \cup (IF B \subseteq Pending THEN {} ELSE {"Harness"})

PQuiet(B) ==
    /\ bad' = bad \cup QuietBad(B)
    /\ UNCHANGED <<st, md, ahead, canc, rels, relin>>

\* Final probe: with nobody holding and nobody calling, TryLock(write) and TryLock(read) succeed
\* ("afterwards the lock behaves as if that call had never been made").
PProbe(ok) ==
    /\ bad' = bad \cup (IF Held = {} /\ Pending = {} /\ relin = 0 /\ ~ok THEN {"Residue", "Phantom"} ELSE {})
    /\ UNCHANGED <<st, md, ahead, canc, rels, relin>>

-----------------------------------------------------------------------------
(* The properties *)

\* C01: one writer or many readers, only between acquire and first release.
Excl == Cardinality(HeldW) <= 1 /\ (HeldW # {} => HeldR = {})
\* exclusion broken after some waiter was cancelled: the lock does not behave as if that call
\* had never been made (C02's reading of the same observation)
ExclAfterCancel == Excl \/ ~\E i \in Ids : st[i] = "canceled"

Safe_C01 == Excl /\ bad \cap {"Occ", "Phantom", "Panic"} = {}

\* C02: grantable waiters are granted, cancelled waiters leave no trace, writer preference.
Safe_C02 == ExclAfterCancel /\ bad \cap {"Stuck", "CancelStuck", "WriterPref", "SpuriousCancel", "Residue"} = {}

NoHarnessError == "Harness" \notin bad

Violated ==
    (IF Excl THEN {} ELSE {"Excl"}) \cup (IF ExclAfterCancel THEN {} ELSE {"ExclAfterCancel"}) \cup bad

\* name of violated condition -> property id
PropertyOf == [Excl |-> "C01", Occ |-> "C01", Phantom |-> "C01", Panic |-> "C01",
               Stuck |-> "C02", CancelStuck |-> "C02", WriterPref |-> "C02",
               SpuriousCancel |-> "C02", Residue |-> "C02", Harness |-> "HARNESS",
               Unexplained |-> "HARNESS"]
=============================================================================
