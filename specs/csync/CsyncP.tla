------------------------------- MODULE CsyncP -------------------------------
(* Property monitor for csync.Mutex / csync.RWMutex (C01, C02).                              *)
(*                                                                                          *)
(* API-level state only: which calls are pending, which hold the lock, which release        *)
(* functions were called how often, which contexts were cancelled.  The events are what a   *)
(* client can observe (call, return, release call, cancel) plus the controller's exact      *)
(* observations (blocked set at a library-quiescent point, final probes).  The operators    *)
(* are used (a) by the implementation-shaped specs Mutex.tla / RWMutex.tla, which fire them *)
(* at their API-visible actions, and (b) by CsyncPTrace.tla, which fires them from events   *)
(* recorded from the real code.  A Mutex is the special case "every call is a writer".      *)
(*                                                                                          *)
(* What the logged events bound (the critical sections themselves are not logged):          *)
(*   B1  an acquisition has certainly happened by its logged return ("ret ok") and cannot   *)
(*       have happened before its logged call;                                              *)
(*   B2  a release has certainly happened by its logged return ("relret") and cannot have   *)
(*       happened before its logged call ("relcall"); between the two it may or may not;    *)
(*   B3  a call whose return is not logged yet may already have taken its decision          *)
(*       (acquired, failed, given up): only its logged return tells which;                  *)
(*   B4  a context is not cancelled before its logged "cancel" (logged before cancel() is    *)
(*       called); a cancelled waiter may still be granted the lock (cancel racing with a    *)
(*       hand-off) and then returns ok.                                                     *)
(* Executions come in two granularities (event "cfg", variable fine):                        *)
(*   coarse (fine = FALSE): a critical section of the lock and everything its goroutine does *)
(*       up to its next critical section or block - in particular the logged return - is    *)
(*       ONE controller step, so a logged return IS the linearization point of its call:    *)
(*       B3 does not arise (a pending call has not decided).                                *)
(*   fine (fine = TRUE; sched.Exec.ParkUnl): the END of a critical section is a park point  *)
(*       too.  Other goroutines run between a call's decisive critical section and its      *)
(*       logged return, and between a waiter's predicate section and its select.  Only      *)
(*       B1-B4 hold.  The conditions below say, each, which bounds they rest on; where the  *)
(*       fine interleavings make a condition undecidable from the events it is weakened     *)
(*       (never strengthened) for fine executions.  Unknown granularity (no cfg event)      *)
(*       is treated as fine.                                                                *)
EXTENDS Naturals, FiniteSets, Sequences, TLC

VARIABLES
    st,     \* call id -> "pending" | "held" | "released" | "failed" | "canceled"
    md,     \* call id -> "r" | "w"
    ahead,  \* read call id -> writers that were observed blocked when the read call started
    canc,   \* call ids whose context has been cancelled
    rels,   \* call id -> number of calls of its release function
    relin,  \* number of release calls in progress (called, not yet returned)
    fine,   \* granularity of this execution (see above)
    solo,   \* pending calls during whose whole life so far nobody held the lock, nobody else was
            \* calling and no release was in progress
    passed, \* (fine only) write-waiters that a reader which started behind them has overtaken while
            \* their own return was not logged yet
    owed,   \* (fine only) the members of passed whose context was not cancelled when they were overtaken
    bad     \* names of event-level conditions that failed (sticky)

pvars == <<st, md, ahead, canc, rels, relin, fine, solo, passed, owed, bad>>

PInitF(f) ==
    /\ st = <<>> /\ md = <<>> /\ ahead = <<>> /\ rels = <<>>
    /\ canc = {} /\ relin = 0 /\ bad = {}
    /\ fine = f /\ solo = {} /\ passed = {} /\ owed = {}
PInit == PInitF(TRUE)

PResetF(f) ==
    /\ st' = <<>> /\ md' = <<>> /\ ahead' = <<>> /\ rels' = <<>>
    /\ canc' = {} /\ relin' = 0 /\ bad' = {}
    /\ fine' = f /\ solo' = {} /\ passed' = {} /\ owed' = {}
PReset == PResetF(TRUE)

\* The driver tells the granularity of the execution (first event after reset).
PCfg(f) ==
    /\ fine' = f
    /\ UNCHANGED <<st, md, ahead, canc, rels, relin, solo, passed, owed, bad>>

Ids      == DOMAIN st
Held     == {i \in Ids : st[i] = "held"}
HeldW    == {i \in Held : md[i] = "w"}
HeldR    == {i \in Held : md[i] = "r"}
Pending  == {i \in Ids : st[i] = "pending"}

\* Could the lock be granted to blocked call b, under the lock's own rules, given that B is
\* the set of blocked (waiting) calls?
Grantable(b, B) ==
    IF md[b] = "w" THEN Held = {}
    ELSE HeldW = {} /\ {w \in B : md[w] = "w"} = {}

-----------------------------------------------------------------------------
(* Events *)

\* A call starts.  blk: the calls observed durably blocked inside Lock at this moment (in their
\* select, nothing ready: registered waiters at either granularity).
PCall(i, m, blk) ==
    /\ st' = (i :> "pending") @@ st
    /\ md' = (i :> m) @@ md
    /\ rels' = (i :> 0) @@ rels
    /\ ahead' = (i :> IF m = "r" THEN {w \in blk : w \in Ids /\ md[w] = "w" /\ st[w] = "pending"} ELSE {}) @@ ahead
    \* i is alone if nobody may hold the lock now (B1-B3: no holder, no pending call that may have
    \* acquired, no release that may not have happened yet); any later call ends everybody's solitude
    /\ solo' = IF Held = {} /\ Pending = {} /\ relin = 0 THEN {i} ELSE {}
    /\ bad' = bad \cup (IF i \in Ids THEN {"Harness"} ELSE {})
    /\ UNCHANGED <<canc, relin, fine, passed, owed>>

\* A call returns.  res: "ok" | "false" (TryLock) | "canceled".  nr, nw: the harness-owned
\* occupancy counters after this caller incremented them (only meaningful for "ok").
PRet(i, res, nr, nw) ==
    LET nst == IF res = "ok" THEN "held" ELSE IF res = "false" THEN "failed" ELSE "canceled"
        st2 == [st EXCEPT ![i] = nst]
        held2 == {j \in Ids : st2[j] = "held"}
        \* writers observed waiting when read call i started and whose return is not logged yet
        over == IF res = "ok" /\ md[i] = "r" THEN {w \in ahead[i] : st[w] = "pending"} ELSE {}
    IN
    /\ st' = st2
    /\ solo' = solo \ {i}
    /\ passed' = (passed \ {i}) \cup (IF fine THEN over ELSE {})
    /\ owed' = (owed \ {i}) \cup (IF fine THEN over \ canc ELSE {})
    /\ bad' = bad
        \cup (IF i \notin Ids \/ st[i] # "pending" THEN {"Harness"} ELSE {})
        \* B4: the cancel event is logged before the context is cancelled
        \cup (IF res = "canceled" /\ i \notin canc THEN {"SpuriousCancel"} ELSE {})
        \* "a waiter whose context is cancelled returns context.Canceled": no other error (e.g. the
        \* cancellation cause of a context.WithCancelCause) is a result of Lock
        \cup (IF res \notin {"ok", "false", "canceled"} THEN {"BadError"} ELSE {})
        \* Writer preference: a read acquire that started while a writer was waiting is not granted
        \* before that writer acquired or gave up.
        \*   coarse: a pending writer has done neither (its decisive section and its return are one
        \*           step), so a reader that returns ok while a writer of ahead[i] is pending overtook it.
        \*   fine:   (B3) a pending writer w may have decided already: it may have acquired (then the
        \*           reader was granted while w holds - a breach of exclusion, C01, not of this clause -
        \*           or w is about to return) or, if cancelled, given up.  Undecidable at this event, so
        \*           nothing is reported here; w is remembered (passed; owed if its context was not
        \*           cancelled yet, i.e. it had certainly not given up) and the clause is judged when
        \*           the events settle it:
        \*             - w is still blocked at a later quiescent observation (PQuiet): it had neither
        \*               acquired nor given up when the reader was granted;
        \*             - w (in owed) returns canceled: it never acquired, and gave up only after the
        \*               reader's return.
        \*           If w returns ok the events cannot tell whether the reader was granted before w
        \*           acquired (this clause) or while w held (C01): not reported.  Weaker than coarse.
        \cup (IF ~fine /\ over # {} THEN {"WriterPref"} ELSE {})
        \cup (IF res = "canceled" /\ i \in owed THEN {"WriterPref"} ELSE {})
        \* A TryLock that fails although nobody can hold the lock: something other than a successful
        \* acquire changed who holds the lock.
        \*   coarse: the failing critical section is the return's own step: nobody holds, nobody else is
        \*           calling and no release is in progress NOW.
        \*   fine:   the decision was taken anywhere between call and return (B1/B3): the same must have
        \*           been true during the whole call (solo).  Weaker than the coarse reading.
        \cup (IF res = "false" /\ (IF fine THEN i \in solo ELSE Held = {} /\ Pending = {i} /\ relin = 0)
              THEN {"Phantom"} ELSE {})
        \* the occupancy counters are harness-owned and updated at the very points the events are logged
        \* (after the return, before the release call): they agree with Held at either granularity
        \cup (IF res = "ok" /\ (nr # Cardinality({j \in held2 : md[j] = "r"})
                               \/ nw # Cardinality({j \in held2 : md[j] = "w"}))
              THEN {"Occ"} ELSE {})
    /\ UNCHANGED <<md, ahead, canc, rels, relin, fine>>

\* The release function of call i is about to be called (the first such call ends the hold: B2,
\* the release cannot have happened earlier).
PRelCall(i) ==
    /\ rels' = [rels EXCEPT ![i] = @ + 1]
    /\ st' = IF st[i] = "held" THEN [st EXCEPT ![i] = "released"] ELSE st
    /\ bad' = bad \cup (IF st[i] \notin {"held", "released"} THEN {"Harness"} ELSE {})
    /\ relin' = relin + 1
    /\ UNCHANGED <<md, ahead, canc, fine, solo, passed, owed>>

\* a repeated release: called and returned at once (X specs: one step)
PRelNoop(i) ==
    /\ rels' = [rels EXCEPT ![i] = @ + 1]
    /\ bad' = bad \cup (IF st[i] # "released" THEN {"Harness"} ELSE {})
    /\ UNCHANGED <<st, md, ahead, canc, relin, fine, solo, passed, owed>>

\* ... and has returned (B2: the release has certainly happened)
PRelRet(i) ==
    /\ relin' = IF relin > 0 THEN relin - 1 ELSE 0
    /\ UNCHANGED <<st, md, ahead, canc, rels, fine, solo, passed, owed, bad>>

\* A documented call panicked (e.g. "unlock of unlocked MutexLocker" when two callers hold a Mutex)
PPanic ==
    /\ bad' = bad \cup {"Panic"}
    /\ relin' = 0
    /\ UNCHANGED <<st, md, ahead, canc, rels, fine, solo, passed, owed>>

\* The context of call i is cancelled (logged before cancel() is called: B4).
PCancel(i) ==
    /\ canc' = canc \cup {i}
    /\ UNCHANGED <<st, md, ahead, rels, relin, fine, solo, passed, owed, bad>>

\* What must hold at a point where no library-internal step is possible and exactly the
\* calls in B are blocked inside Lock.  The observation is made when no goroutine is parked at any
\* hook (at either granularity: in fine executions that includes the ends of critical sections):
\* every call and release that was started has run to its logged return or to a durable block in
\* its select, so here - and only here - the monitor's state is exact (Pending = B, relin = 0,
\* Held = the real holders) and no bound is needed.
QuietOK(B) ==
    /\ \A b \in B : ~Grantable(b, B)      \* a grantable waiter would have been granted
    /\ B \cap canc = {}                   \* a cancelled waiter has returned

QuietBad(B) ==
    (IF \E b \in B : Grantable(b, B) THEN {"Stuck"} ELSE {})
    \* (fine) an overtaken writer that is still waiting: see WriterPref in PRet
    \cup (IF B \cap passed # {} THEN {"WriterPref"} ELSE {})
    \cup (IF B \cap canc # {} THEN {"CancelStuck"} ELSE {})
    \cup (IF B \subseteq Pending THEN {} ELSE {"Harness"})

PQuiet(B) ==
    /\ bad' = bad \cup QuietBad(B)
    /\ UNCHANGED <<st, md, ahead, canc, rels, relin, fine, solo, passed, owed>>

\* Final probe: with nobody holding and nobody calling, TryLock(write) and TryLock(read) succeed
\* ("afterwards the lock behaves as if that call had never been made").  The probe is made by the
\* controller itself (never parked) after every call and release has returned: call, decision and
\* return are one event at either granularity.
PProbe(ok) ==
    /\ bad' = bad \cup (IF Held = {} /\ Pending = {} /\ relin = 0 /\ ~ok THEN {"Residue", "Phantom"} ELSE {})
    /\ UNCHANGED <<st, md, ahead, canc, rels, relin, fine, solo, passed, owed>>

-----------------------------------------------------------------------------
(* The properties *)

\* C01: one writer or many readers, only between acquire and first release.  Held is the set of
\* calls between their logged "ret ok" and their first logged "relcall": by B1/B2 every member
\* really holds the lock at that moment (acquired by the return, not released before the release
\* call), so two members that exclude each other are a real overlap at either granularity.  (The
\* converse does not hold in fine executions - a real overlap may end before it is logged - but
\* that only makes the condition miss, never fire wrongly.)
Excl == Cardinality(HeldW) <= 1 /\ (HeldW # {} => HeldR = {})
\* exclusion broken after some waiter was cancelled: the lock does not behave as if that call
\* had never been made (C02's reading of the same observation)
ExclAfterCancel == Excl \/ ~\E i \in Ids : st[i] = "canceled"

Safe_C01 == Excl /\ bad \cap {"Occ", "Phantom", "Panic"} = {}

\* C02: grantable waiters are granted, cancelled waiters leave no trace, writer preference.
Safe_C02 == ExclAfterCancel /\ bad \cap {"Stuck", "CancelStuck", "WriterPref", "SpuriousCancel", "Residue", "BadError"} = {}

NoHarnessError == "Harness" \notin bad

Violated ==
    (IF Excl THEN {} ELSE {"Excl"}) \cup (IF ExclAfterCancel THEN {} ELSE {"ExclAfterCancel"}) \cup bad

\* name of violated condition -> property id
PropertyOf == [Excl |-> "C01", Occ |-> "C01", Phantom |-> "C01", Panic |-> "C01",
               Stuck |-> "C02", CancelStuck |-> "C02", WriterPref |-> "C02",
               SpuriousCancel |-> "C02", Residue |-> "C02", Harness |-> "HARNESS",
               Unexplained |-> "HARNESS"]
=============================================================================
