--------------------------- MODULE RWMutexXTrace ---------------------------
(* X-level trace validation (advisory, DESIGN §2.5): executions of ONE scenario (the constant  *)
(* Prog) recorded from the real csync code with every controller step logged are replayed       *)
(* through the actions of RWMutex.tla itself.  A "step" event must be an enabled action of the     *)
(* spec (call -> Call, grant -> the critical section the process is parked at, cancel ->        *)
(* Cancel); the select wake-ups that the real goroutines perform within the same controller     *)
(* step are taken eagerly (action composition, TLC option tlc2.tool.impl.Tool.cdot).  The        *)
(* API-level events recorded between steps are assertions on the spec's state: a logged return  *)
(* must already be the state of that call in the spec, a logged quiescent observation must be   *)
(* LibQuiet with exactly the logged blocked set.  A mismatch is DRIFT: the code no longer takes *)
(* the steps the spec describes (or the spec is wrong); it never is a verdict by itself.        *)
EXTENDS RWMutex, TraceLib

VARIABLES l, drift, live
tv == <<l, drift, live>>

\* (-logsteps executions are always coarse: Fine = FALSE in the MCX configuration)
XReset ==
    /\ PResetF(Fine)
    /\ rres' = [p \in Procs |-> ""]
    /\ nreaders' = 0 /\ writing' = FALSE /\ writeWaiting' = 0
    /\ wch' = [p \in Procs |-> "none"]
    /\ pc' = [p \in Procs |-> "idle"]
    /\ ip' = [p \in Procs |-> 1]
    /\ status' = <<>>
    /\ ctxc' = [p \in Procs |-> FALSE]
    /\ relid' = [p \in Procs |-> 0]

TInit == Init /\ l = 1 /\ drift = <<>> /\ live = TRUE

\* "call:c2" -> <<"call", 2>>
Kind(lbl) == IF Len(lbl) > 5 /\ SubSeq(lbl, 1, 5) = "call:" THEN "call"
             ELSE IF Len(lbl) > 6 /\ SubSeq(lbl, 1, 6) = "grant:" THEN "grant"
             ELSE IF Len(lbl) > 7 /\ SubSeq(lbl, 1, 7) = "cancel:" THEN "cancel" ELSE "?"
Digit(c) == CASE c = "1" -> 1 [] c = "2" -> 2 [] c = "3" -> 3 [] c = "4" -> 4 [] c = "5" -> 5 [] c = "6" -> 6 [] OTHER -> 0
Proc(lbl) == Digit(SubSeq(lbl, Len(lbl), Len(lbl)))

CanAct(k, p) ==
    /\ p \in Procs
    /\ CASE k = "call" -> pc[p] = "idle" /\ ~Done(p)
         [] k = "grant" -> pc[p] \in {"cs1", "cs2", "cancelcs", "relcs", "trycs"}
         [] k = "cancel" -> pc[p] \in {"cs1", "sel", "cs2"} /\ Op(p).op = "lock" /\ Op(p).c /\ ~ctxc[p]
         [] OTHER -> FALSE

Act(k, p) ==
    /\ UNCHANGED tv
    /\ CASE k = "call" -> Call(p)
         [] k = "grant" -> CS1(p) \/ CS2(p) \/ CancelCS(p) \/ RelCS(p) \/ TryCS(p)
         [] k = "cancel" -> Cancel(p)

\* one eager wake-up (of the least woken process), or nothing
W ==
    /\ UNCHANGED tv
    /\ IF WakeAny
       THEN LET p == CHOOSE q \in Procs : (pc[q] = "sel" /\ (wch[q] = "closed" \/ ctxc[q]))
                                          /\ \A r \in Procs : (pc[r] = "sel" /\ (wch[r] = "closed" \/ ctxc[r])) => q <= r
            IN Wake(p) \/ WakeCtx(p)
       ELSE UNCHANGED vars

Fin == UNCHANGED <<vars, drift, live>> /\ l' = l + 1

Drift(why) ==
    /\ drift' = Append(drift, [run |-> Trace[l].run, seq |-> Trace[l].seq, why |-> why])
    /\ live' = FALSE
    /\ l' = l + 1
    /\ UNCHANGED vars

StOf(res) == IF res = "ok" THEN "held" ELSE IF res = "false" THEN "failed" ELSE "canceled"

TStep ==
    /\ l <= Len(Trace)
    /\ LET e == Trace[l] IN
       CASE e.ev = "reset" -> XReset /\ l' = l + 1 /\ live' = TRUE /\ UNCHANGED drift
         [] ~live -> UNCHANGED <<vars, drift, live>> /\ l' = l + 1
         [] e.ev = "step" ->
              LET k == Kind(e.label) p == Proc(e.label) IN
              IF CanAct(k, p) THEN Act(k, p) \cdot W \cdot W \cdot W \cdot W \cdot W \cdot Fin
              ELSE Drift("step not enabled: " \o e.label)
         [] e.ev = "ret" ->
              IF e.xid \in Ids /\ st[e.xid] = StOf(e.res) THEN Fin ELSE Drift("return not explained by the spec")
         [] e.ev = "relcall" ->
              IF e.xid \in Ids /\ st[e.xid] = "released" THEN Fin ELSE Drift("release call not explained by the spec")
         [] e.ev = "quiet" ->
              IF LibQuiet /\ BlockedIds = SeqToSet(e.xblk) THEN Fin ELSE Drift("quiescent observation differs")
         [] e.ev = "teardown" -> UNCHANGED <<vars, drift>> /\ live' = FALSE /\ l' = l + 1
         [] OTHER -> Fin

TFinish ==
    /\ l = Len(Trace) + 1
    /\ JsonSerialize(IOEnv.VERDICT_FILE, [drift |-> drift, consumed |-> Len(Trace), total |-> Len(Trace)])
    /\ l' = l + 1
    /\ UNCHANGED <<vars, drift, live>>

TNext == TStep \/ TFinish
=============================================================================
