------------------------------- MODULE RWMutex -------------------------------
(* Implementation-shaped specification of csync.RWMutex (csync/rwmutex.go) on top of         *)
(* broadcast.Broadcast.  One action per critical section (Broadcast.HoldLock callback) and   *)
(* per select wake-up; client programs, cancellation and release calls are the environment.  *)
(* The CsyncP monitor variables are updated at the API-visible actions, so C01/C02 have one  *)
(* definition (CsyncP) that is checked here on the model and on traces of the real code.     *)
(*                                                                                          *)
(* Broadcast abstraction: at most one wait channel is open at a time; every channel handed   *)
(* out earlier is closed.  wch[p] \in {"none","cur","closed"} (see Broadcast.tla, where the  *)
(* abstraction is justified against explicit channel identities).                            *)
EXTENDS CsyncP, Integers

CONSTANTS
    Prog,        \* Prog[p]: sequence of [op, w, c, k] records; p \in 1..Len(Prog)
    FixF1,       \* TRUE: cancelled write-waiter broadcasts (code after the fix: commit); FALSE: pinned code
    EagerWake,   \* TRUE: wake-ups are taken before anything else (controller granularity)
    Fine         \* TRUE: the END of a critical section is a scheduling point too (sched.Exec.ParkUnl): the
                 \* logged return of a call (Ret), of a release (RelRet) and a waiter's entry into its
                 \* select (EnterSel) are steps of their own, so other processes run between a decision
                 \* and its logged return.  The CsyncP monitor is told (PInitF) and must hold either way.

Procs == 1..Len(Prog)
Id(p, j) == p * 100 + j

VARIABLES
    nreaders, writing, writeWaiting,   \* RWMutex fields (guarded by bcast)
    wch,       \* per process: its sampled wait channel: "none" | "cur" | "closed"
    pc,        \* per process program counter
    ip,        \* per process index of the current/next op
    status,    \* acquisition id -> 0 waiting | 1 held | 2 released   (the per-call status word)
    ctxc,      \* per process: context of the call in flight is cancelled
    relid,     \* per process: acquisition id whose release is in progress
    rres       \* per process (Fine): result of the call whose return is still to be logged

xvars == <<nreaders, writing, writeWaiting, wch, pc, ip, status, ctxc, relid, rres>>
vars == <<xvars, pvars>>

Op(p) == Prog[p][ip[p]]
CurId(p) == Id(p, ip[p])
IsW(p) == Op(p).w

Init ==
    /\ PInitF(Fine)
    /\ rres = [p \in Procs |-> ""]
    /\ nreaders = 0 /\ writing = FALSE /\ writeWaiting = 0
    /\ wch = [p \in Procs |-> "none"]
    /\ pc = [p \in Procs |-> "idle"]
    /\ ip = [p \in Procs |-> 1]
    /\ status = <<>>
    /\ ctxc = [p \in Procs |-> FALSE]
    /\ relid = [p \in Procs |-> 0]

\* broadcast(): close the current channel and forget it
Bcast(w) == [q \in Procs |-> IF w[q] = "cur" THEN "closed" ELSE w[q]]
\* getWaitCh() by p
GetCh(w, p) == [w EXCEPT ![p] = "cur"]

BlockedIds == {CurId(q) : q \in {r \in Procs : pc[r] = "sel"}}

Advance(p) == ip' = [ip EXCEPT ![p] = @ + 1]
Done(p) == ip[p] > Len(Prog[p])

Heldcount(s) == Cardinality(s)

-----------------------------------------------------------------------------
WakeAny == \E p \in Procs : (pc[p] = "sel" /\ (wch[p] = "closed" \/ ctxc[p]))
\* With EagerWake a woken select runs on before anything else happens (the granularity of the
\* deterministic controller, where a woken goroutine runs to its next park within the step).
Gate == ~(EagerWake /\ WakeAny)

(* Environment: the client issues its next operation. *)
Call(p) ==
    /\ Gate
    /\ pc[p] = "idle" /\ ~Done(p)
    /\ LET o == Op(p) IN
       CASE o.op \in {"lock", "llock"} ->
              /\ pc' = [pc EXCEPT ![p] = "cs1"]
              /\ status' = (CurId(p) :> 0) @@ status
              /\ ctxc' = [ctxc EXCEPT ![p] = FALSE]
              /\ PCall(CurId(p), IF o.w THEN "w" ELSE "r", BlockedIds)
              /\ UNCHANGED <<nreaders, writing, writeWaiting, wch, ip, relid, rres>>
         [] o.op = "trylock" ->
              /\ pc' = [pc EXCEPT ![p] = "trycs"]
              /\ status' = (CurId(p) :> 0) @@ status
              /\ PCall(CurId(p), IF o.w THEN "w" ELSE "r", BlockedIds)
              /\ UNCHANGED <<nreaders, writing, writeWaiting, wch, ip, ctxc, relid, rres>>
         [] o.op = "rel" ->
              LET i == Id(p, o.k) IN
              IF i \in Ids /\ st[i] \in {"held", "released"}
              THEN \* release(): pre := status.Swap(2)
                   /\ status' = [status EXCEPT ![i] = 2]
                   /\ IF status[i] = 1
                      THEN /\ PRelCall(i)
                           /\ pc' = [pc EXCEPT ![p] = "relcs"]
                           /\ relid' = [relid EXCEPT ![p] = i]
                           /\ UNCHANGED ip
                      ELSE /\ PRelNoop(i) /\ Advance(p) /\ UNCHANGED <<pc, relid>>
                   /\ UNCHANGED <<nreaders, writing, writeWaiting, wch, ctxc, rres>>
              ELSE \* the acquisition failed: there is no release function to call
                   /\ Advance(p)
                   /\ UNCHANGED <<nreaders, writing, writeWaiting, wch, pc, status, ctxc, relid, rres, pvars>>

LogRet(p, res) ==
    /\ pc' = [pc EXCEPT ![p] = "idle"]
    /\ Advance(p)
    /\ LET st2 == [st EXCEPT ![CurId(p)] = IF res = "ok" THEN "held" ELSE "x"]
           h2 == {j \in Ids : st2[j] = "held"}
       IN PRet(CurId(p), res, Cardinality({j \in h2 : md[j] = "r"}), Cardinality({j \in h2 : md[j] = "w"}))

\* the call has decided; Fine: the goroutine parks at the end of the critical section, the return is
\* logged by a later step (Ret)
Return(p, res) ==
    IF Fine
    THEN /\ pc' = [pc EXCEPT ![p] = "ret"]
         /\ rres' = [rres EXCEPT ![p] = res]
         /\ UNCHANGED <<ip, pvars>>
    ELSE LogRet(p, res) /\ UNCHANGED rres

Ret(p) ==
    /\ Gate
    /\ pc[p] = "ret"
    /\ LogRet(p, rres[p])
    /\ rres' = [rres EXCEPT ![p] = ""]
    /\ UNCHANGED <<nreaders, writing, writeWaiting, wch, status, ctxc, relid>>

\* where a process goes after a critical section that left it waiting
Wait == IF Fine THEN "presel" ELSE "sel"

\* first critical section of Lock (rwmutex.go:37-52)
CS1(p) ==
    /\ Gate
    /\ pc[p] = "cs1"
    /\ IF IsW(p)
       THEN IF nreaders # 0 \/ writing
            THEN /\ writeWaiting' = writeWaiting + 1
                 /\ wch' = GetCh(wch, p)
                 /\ pc' = [pc EXCEPT ![p] = Wait]
                 /\ UNCHANGED <<nreaders, writing, status, ip, rres, pvars>>
            ELSE /\ writing' = TRUE
                 /\ status' = [status EXCEPT ![CurId(p)] = 1]
                 /\ Return(p, "ok")
                 /\ UNCHANGED <<nreaders, writeWaiting, wch>>
       ELSE IF ~writing /\ writeWaiting = 0
            THEN /\ nreaders' = nreaders + 1
                 /\ status' = [status EXCEPT ![CurId(p)] = 1]
                 /\ Return(p, "ok")
                 /\ UNCHANGED <<writing, writeWaiting, wch>>
            ELSE /\ wch' = GetCh(wch, p)
                 /\ pc' = [pc EXCEPT ![p] = Wait]
                 /\ UNCHANGED <<nreaders, writing, writeWaiting, status, ip, rres, pvars>>
    /\ UNCHANGED <<ctxc, relid>>

\* Fine: the waiter was parked between the critical section in which it obtained its wait channel
\* and its select; broadcasts and a cancellation may have landed in between, the select is then
\* entered with several cases ready (Wake and WakeCtx both enabled: Go picks either)
EnterSel(p) ==
    /\ Gate
    /\ pc[p] = "presel"
    /\ pc' = [pc EXCEPT ![p] = "sel"]
    /\ UNCHANGED <<nreaders, writing, writeWaiting, wch, ip, status, ctxc, relid, rres, pvars>>

\* select: the wait channel fired
Wake(p) ==
    /\ pc[p] = "sel" /\ wch[p] = "closed"
    /\ pc' = [pc EXCEPT ![p] = "cs2"]
    /\ UNCHANGED <<nreaders, writing, writeWaiting, wch, ip, status, ctxc, relid, rres, pvars>>

\* select: ctx.Done fired -> release(): pre := status.Swap(2) = 0 -> HoldLock
WakeCtx(p) ==
    /\ pc[p] = "sel" /\ ctxc[p]
    /\ status' = [status EXCEPT ![CurId(p)] = 2]
    /\ pc' = [pc EXCEPT ![p] = "cancelcs"]
    /\ UNCHANGED <<nreaders, writing, writeWaiting, wch, ip, ctxc, relid, rres, pvars>>

\* critical section of release() with pre = 0 (rwmutex.go:60-66), then return context.Canceled
CancelCS(p) ==
    /\ Gate
    /\ pc[p] = "cancelcs"
    /\ IF IsW(p)
       THEN /\ writeWaiting' = writeWaiting - 1
            /\ wch' = IF FixF1 THEN Bcast(wch) ELSE wch
       ELSE UNCHANGED <<writeWaiting, wch>>
    /\ Return(p, "canceled")
    /\ UNCHANGED <<nreaders, writing, status, ctxc, relid>>

\* re-check critical section of the slow path (rwmutex.go:92-107)
CS2(p) ==
    /\ Gate
    /\ pc[p] = "cs2"
    /\ IF IsW(p)
       THEN IF nreaders = 0 /\ ~writing
            THEN /\ writeWaiting' = writeWaiting - 1
                 /\ writing' = TRUE
                 /\ status' = [status EXCEPT ![CurId(p)] = 1]
                 /\ Return(p, "ok")
                 /\ UNCHANGED <<nreaders, wch>>
            ELSE /\ wch' = GetCh(wch, p)
                 /\ pc' = [pc EXCEPT ![p] = Wait]
                 /\ UNCHANGED <<nreaders, writing, writeWaiting, status, ip, rres, pvars>>
       ELSE IF ~writing /\ writeWaiting = 0
            THEN /\ nreaders' = nreaders + 1
                 /\ status' = [status EXCEPT ![CurId(p)] = 1]
                 /\ Return(p, "ok")
                 /\ UNCHANGED <<writing, writeWaiting, wch>>
            ELSE /\ wch' = GetCh(wch, p)
                 /\ pc' = [pc EXCEPT ![p] = Wait]
                 /\ UNCHANGED <<nreaders, writing, writeWaiting, status, ip, rres, pvars>>
    /\ UNCHANGED <<ctxc, relid>>

\* critical section of release() with pre = 1 (rwmutex.go:67-74) / of the TryLock release
RelCS(p) ==
    /\ Gate
    /\ pc[p] = "relcs"
    /\ IF md[relid[p]] = "w"
       THEN writing' = FALSE /\ UNCHANGED nreaders
       ELSE nreaders' = nreaders - 1 /\ UNCHANGED writing
    /\ wch' = Bcast(wch)
    /\ IF Fine
       THEN pc' = [pc EXCEPT ![p] = "relret"] /\ UNCHANGED <<ip, relid, pvars>>
       ELSE /\ pc' = [pc EXCEPT ![p] = "idle"]
            /\ Advance(p)
            /\ relid' = [relid EXCEPT ![p] = 0]
            /\ PRelRet(relid[p])
    /\ UNCHANGED <<writeWaiting, status, ctxc, rres>>

\* Fine: the release function returns in a later step than its critical section
RelRet(p) ==
    /\ Gate
    /\ pc[p] = "relret"
    /\ pc' = [pc EXCEPT ![p] = "idle"]
    /\ Advance(p)
    /\ relid' = [relid EXCEPT ![p] = 0]
    /\ PRelRet(relid[p])
    /\ UNCHANGED <<nreaders, writing, writeWaiting, wch, status, ctxc, rres>>

\* the single critical section of TryLock (rwmutex.go:121-135)
TryCS(p) ==
    /\ Gate
    /\ pc[p] = "trycs"
    /\ IF IsW(p)
       THEN IF nreaders # 0 \/ writing
            THEN /\ Return(p, "false") /\ UNCHANGED <<writing, nreaders, status>>
            ELSE /\ writing' = TRUE /\ status' = [status EXCEPT ![CurId(p)] = 1]
                 /\ Return(p, "ok") /\ UNCHANGED nreaders
       ELSE IF ~writing /\ writeWaiting = 0
            THEN /\ nreaders' = nreaders + 1 /\ status' = [status EXCEPT ![CurId(p)] = 1]
                 /\ Return(p, "ok") /\ UNCHANGED writing
            ELSE /\ Return(p, "false") /\ UNCHANGED <<writing, nreaders, status>>
    /\ UNCHANGED <<writeWaiting, wch, ctxc, relid>>

\* Environment: the context of p's Lock call is cancelled (at any point of the call).
Cancel(p) ==
    /\ Gate
    /\ pc[p] \in {"cs1", "presel", "sel", "cs2", "ret"} /\ Op(p).op = "lock" /\ Op(p).c /\ ~ctxc[p]
    /\ ctxc' = [ctxc EXCEPT ![p] = TRUE]
    /\ PCancel(CurId(p))
    /\ UNCHANGED <<nreaders, writing, writeWaiting, wch, pc, ip, status, relid, rres>>

-----------------------------------------------------------------------------
Lib(p) == CS1(p) \/ CS2(p) \/ CancelCS(p) \/ RelCS(p) \/ TryCS(p) \/ Wake(p) \/ WakeCtx(p)
          \/ EnterSel(p) \/ Ret(p) \/ RelRet(p)
Env(p) == Call(p) \/ Cancel(p)

Next ==
    \E p \in Procs :
        \/ Call(p) \/ Cancel(p)
        \/ CS1(p) \/ CS2(p) \/ CancelCS(p) \/ RelCS(p) \/ TryCS(p)
        \/ Wake(p) \/ WakeCtx(p)
        \/ EnterSel(p) \/ Ret(p) \/ RelRet(p)

Spec == Init /\ [][Next]_vars

\* No library-internal step is possible: every call in flight is blocked in its select.
LibQuiet ==
    /\ \A p \in Procs : pc[p] \in {"idle", "sel"}
    /\ ~WakeAny

-----------------------------------------------------------------------------
(* Invariants *)
TypeOK ==
    /\ nreaders \in Nat /\ writeWaiting \in Nat /\ writing \in BOOLEAN
    /\ \A p \in Procs : wch[p] \in {"none", "cur", "closed"}

\* the implementation's fields agree with the API-level holder set, except while a release is
\* between its status swap and its critical section
Agree ==
    LET rel == {relid[p] : p \in {q \in Procs : pc[q] = "relcs"}}
        \* Fine: acquired, return not logged yet
        acq == {CurId(p) : p \in {q \in Procs : pc[q] = "ret" /\ rres[q] = "ok"}} IN
    /\ nreaders = Cardinality(HeldR) + Cardinality({i \in rel \cup acq : md[i] = "r"})
    /\ writing = (HeldW # {} \/ \E i \in rel \cup acq : md[i] = "w")

\* C02 at quiescent points, through the monitor's own definition
QuietInv == LibQuiet => QuietOK(BlockedIds)

\* cancelled waiters leave no trace: when nothing is held or in flight the fields are zero
NoResidue ==
    (\A p \in Procs : pc[p] = "idle") /\ Held = {} => nreaders = 0 /\ ~writing /\ writeWaiting = 0

\* writeWaiting counts exactly the registered write-waiters
WaitCount ==
    writeWaiting = Cardinality({p \in Procs : pc[p] \in {"presel", "sel", "cs2", "cancelcs"} /\ IsW(p)})

ModelSafe == Safe_C01 /\ Safe_C02 /\ NoHarnessError

\* a failed path never changes the holder fields
FailedPathsInert ==
    [][\A p \in Procs : (CancelCS(p) \/ (TryCS(p) /\ (st'[CurId(p)] = "failed" \/ rres'[p] = "false"))) =>
          UNCHANGED <<nreaders, writing>>]_vars
=============================================================================
