-------------------------------- MODULE Mutex --------------------------------
(* Implementation-shaped specification of csync.Mutex (csync/mutex.go): one action per        *)
(* Broadcast.HoldLock critical section and per select wake-up.  Every call is a "w" call of   *)
(* the CsyncP monitor.  Same conventions as RWMutex.tla (Fine: see there).                    *)
EXTENDS CsyncP, Integers

CONSTANTS Prog, EagerWake, Fine

Procs == 1..Len(Prog)
Id(p, j) == p * 100 + j

VARIABLES
    locked,    \* Mutex.locked (guarded by bcast)
    wch, pc, ip, status, ctxc, relid,
    rres       \* Fine: result of the call whose return is still to be logged

xvars == <<locked, wch, pc, ip, status, ctxc, relid, rres>>
vars == <<xvars, pvars>>

Op(p) == Prog[p][ip[p]]
CurId(p) == Id(p, ip[p])

Init ==
    /\ PInitF(Fine)
    /\ rres = [p \in Procs |-> ""]
    /\ locked = FALSE
    /\ wch = [p \in Procs |-> "none"]
    /\ pc = [p \in Procs |-> "idle"]
    /\ ip = [p \in Procs |-> 1]
    /\ status = <<>>
    /\ ctxc = [p \in Procs |-> FALSE]
    /\ relid = [p \in Procs |-> 0]

Bcast(w) == [q \in Procs |-> IF w[q] = "cur" THEN "closed" ELSE w[q]]
GetCh(w, p) == [w EXCEPT ![p] = "cur"]
BlockedIds == {CurId(q) : q \in {r \in Procs : pc[r] = "sel"}}
Advance(p) == ip' = [ip EXCEPT ![p] = @ + 1]
Done(p) == ip[p] > Len(Prog[p])

WakeAny == \E p \in Procs : (pc[p] = "sel" /\ (wch[p] = "closed" \/ ctxc[p]))
Gate == ~(EagerWake /\ WakeAny)

Call(p) ==
    /\ Gate
    /\ pc[p] = "idle" /\ ~Done(p)
    /\ LET o == Op(p) IN
       CASE o.op \in {"lock", "llock"} ->
              /\ pc' = [pc EXCEPT ![p] = "cs1"]
              /\ status' = (CurId(p) :> 0) @@ status
              /\ ctxc' = [ctxc EXCEPT ![p] = FALSE]
              /\ PCall(CurId(p), "w", BlockedIds)
              /\ UNCHANGED <<locked, wch, ip, relid, rres>>
         [] o.op = "trylock" ->
              /\ pc' = [pc EXCEPT ![p] = "trycs"]
              /\ status' = (CurId(p) :> 0) @@ status
              /\ PCall(CurId(p), "w", BlockedIds)
              /\ UNCHANGED <<locked, wch, ip, ctxc, relid, rres>>
         [] o.op = "rel" ->
              LET i == Id(p, o.k) IN
              IF i \in Ids /\ st[i] \in {"held", "released"}
              THEN /\ status' = [status EXCEPT ![i] = 2]
                   /\ IF status[i] = 1
                      THEN /\ PRelCall(i)
                           /\ pc' = [pc EXCEPT ![p] = "relcs"]
                           /\ relid' = [relid EXCEPT ![p] = i]
                           /\ UNCHANGED ip
                      ELSE /\ PRelNoop(i) /\ Advance(p) /\ UNCHANGED <<pc, relid>>
                   /\ UNCHANGED <<locked, wch, ctxc, rres>>
              ELSE /\ Advance(p)
                   /\ UNCHANGED <<locked, wch, pc, status, ctxc, relid, rres, pvars>>

LogRet(p, res) ==
    /\ pc' = [pc EXCEPT ![p] = "idle"]
    /\ Advance(p)
    /\ LET st2 == [st EXCEPT ![CurId(p)] = IF res = "ok" THEN "held" ELSE "x"]
           h2 == {j \in Ids : st2[j] = "held"}
       IN PRet(CurId(p), res, 0, Cardinality(h2))

\* the call has decided; Fine: the goroutine parks at the end of the critical section, the return is
\* logged by a later step (Ret)
Return(p, res) ==
    IF Fine
    THEN /\ pc' = [pc EXCEPT ![p] = "ret"]
         /\ rres' = [rres EXCEPT ![p] = res]
         /\ UNCHANGED <<ip, pvars>>
    ELSE LogRet(p, res) /\ UNCHANGED rres

Ret(p) ==
    /\ Gate
    /\ pc[p] = "ret"
    /\ LogRet(p, rres[p])
    /\ rres' = [rres EXCEPT ![p] = ""]
    /\ UNCHANGED <<locked, wch, status, ctxc, relid>>

\* the two critical sections of Lock have the same body (mutex.go:31-43, 73-86)
TryAcquire(p, from) ==
    /\ Gate
    /\ pc[p] = from
    /\ IF locked
       THEN /\ wch' = GetCh(wch, p)
            /\ pc' = [pc EXCEPT ![p] = IF Fine THEN "presel" ELSE "sel"]
            /\ UNCHANGED <<locked, status, ip, rres, pvars>>
       ELSE \* CompareAndSwap(0,1) always succeeds here: status is 0 while the call is pending
            /\ locked' = TRUE
            /\ status' = [status EXCEPT ![CurId(p)] = 1]
            /\ Return(p, "ok")
            /\ UNCHANGED wch
    /\ UNCHANGED <<ctxc, relid>>

CS1(p) == TryAcquire(p, "cs1")
CS2(p) == TryAcquire(p, "cs2")

\* Fine: the waiter was parked between the critical section in which it obtained its wait channel
\* and its select; broadcasts and a cancellation may have landed in between, the select is then
\* entered with several cases ready (Wake and WakeCtx both enabled)
EnterSel(p) ==
    /\ Gate
    /\ pc[p] = "presel"
    /\ pc' = [pc EXCEPT ![p] = "sel"]
    /\ UNCHANGED <<locked, wch, ip, status, ctxc, relid, rres, pvars>>

Wake(p) ==
    /\ pc[p] = "sel" /\ wch[p] = "closed"
    /\ pc' = [pc EXCEPT ![p] = "cs2"]
    /\ UNCHANGED <<locked, wch, ip, status, ctxc, relid, rres, pvars>>

\* select: ctx.Done -> release(): pre = status.Swap(2) = 0 # 1 -> no critical section; return Canceled
WakeCtx(p) ==
    /\ pc[p] = "sel" /\ ctxc[p]
    /\ status' = [status EXCEPT ![CurId(p)] = 2]
    /\ Return(p, "canceled")
    /\ UNCHANGED <<locked, wch, ctxc, relid>>

RelCS(p) ==
    /\ Gate
    /\ pc[p] = "relcs"
    /\ locked' = FALSE
    /\ wch' = Bcast(wch)
    /\ IF Fine
       THEN pc' = [pc EXCEPT ![p] = "relret"] /\ UNCHANGED <<ip, relid, pvars>>
       ELSE /\ pc' = [pc EXCEPT ![p] = "idle"]
            /\ Advance(p)
            /\ relid' = [relid EXCEPT ![p] = 0]
            /\ PRelRet(relid[p])
    /\ UNCHANGED <<status, ctxc, rres>>

\* Fine: the release function returns in a later step than its critical section
RelRet(p) ==
    /\ Gate
    /\ pc[p] = "relret"
    /\ pc' = [pc EXCEPT ![p] = "idle"]
    /\ Advance(p)
    /\ relid' = [relid EXCEPT ![p] = 0]
    /\ PRelRet(relid[p])
    /\ UNCHANGED <<locked, wch, status, ctxc, rres>>

TryCS(p) ==
    /\ Gate
    /\ pc[p] = "trycs"
    /\ IF locked
       THEN /\ Return(p, "false") /\ UNCHANGED <<locked, status>>
       ELSE /\ locked' = TRUE /\ status' = [status EXCEPT ![CurId(p)] = 1] /\ Return(p, "ok")
    /\ UNCHANGED <<wch, ctxc, relid>>

Cancel(p) ==
    /\ Gate
    /\ pc[p] \in {"cs1", "presel", "sel", "cs2", "ret"} /\ Op(p).op = "lock" /\ Op(p).c /\ ~ctxc[p]
    /\ ctxc' = [ctxc EXCEPT ![p] = TRUE]
    /\ PCancel(CurId(p))
    /\ UNCHANGED <<locked, wch, pc, ip, status, relid, rres>>

Next ==
    \E p \in Procs :
        \/ Call(p) \/ Cancel(p)
        \/ CS1(p) \/ CS2(p) \/ RelCS(p) \/ TryCS(p)
        \/ Wake(p) \/ WakeCtx(p)
        \/ EnterSel(p) \/ Ret(p) \/ RelRet(p)

Spec == Init /\ [][Next]_vars

LibQuiet == (\A p \in Procs : pc[p] \in {"idle", "sel"}) /\ ~WakeAny

TypeOK == locked \in BOOLEAN /\ \A p \in Procs : wch[p] \in {"none", "cur", "closed"}
Agree == locked = (Held # {} \/ \E p \in Procs : pc[p] = "relcs" \/ (pc[p] = "ret" /\ rres[p] = "ok"))
QuietInv == LibQuiet => QuietOK(BlockedIds)
NoResidue == (\A p \in Procs : pc[p] = "idle") /\ Held = {} => ~locked
ModelSafe == Safe_C01 /\ Safe_C02 /\ NoHarnessError
=============================================================================
