----------------------------- MODULE CsyncPTrace -----------------------------
(* Replays an ndjson trace recorded from the real csync code through the CsyncP monitor.     *)
(* Deterministic: one state per event; the monitor's conditions are evaluated after every    *)
(* event and every failure is collected (instead of stopping at the first), then written to  *)
(* VERDICT_FILE.                                                                            *)
EXTENDS CsyncP, TraceLib

VARIABLES l, viol, seen

tvars == <<l, viol, seen>>

TInit == PInit /\ l = 1 /\ viol = <<>> /\ seen = {}

\* Violations of the current state (the result of event l-1), not yet reported in this run.
Fresh == Violated \ seen
Recorded ==
    \* (at most 300 records per trace file: the state carries the list, so an unbounded list would
    \* make validation quadratic when a defect fires in most runs)
    IF l > 1 /\ Fresh # {} /\ Len(viol) < 300
    THEN Append(viol, [run |-> Trace[l-1].run, seq |-> Trace[l-1].seq, names |-> Fresh, l |-> l - 1])
    ELSE viol

Apply(e) ==
    CASE e.ev = "reset"   -> PReset
      [] e.ev = "cfg"     -> PCfg(e.fine)
      [] e.ev = "call"    -> PCall(e.id, e.mode, SeqToSet(e.blk))
      [] e.ev = "ret"     -> PRet(e.id, e.res, e.nr, e.nw)
      [] e.ev = "relcall" -> PRelCall(e.id)
      [] e.ev = "relret"  -> PRelRet(e.id)
      [] e.ev = "panic"   -> PPanic
      [] e.ev = "cancel"  -> PCancel(e.id)
      [] e.ev = "quiet"   -> PQuiet(SeqToSet(e.blk))
      [] e.ev = "probe"   -> PProbe(e.ok)
      [] e.ev \in {"leak", "note", "end", "teardown", "step"} -> UNCHANGED pvars
      [] OTHER            -> /\ bad' = bad \cup {"Unexplained"}
                             /\ UNCHANGED <<st, md, ahead, canc, rels, relin, fine, solo, passed, owed>>

TStep ==
    /\ l <= Len(Trace)
    /\ viol' = Recorded
    /\ seen' = IF Trace[l].ev = "reset" THEN {} ELSE seen \cup Violated
    /\ Apply(Trace[l])
    /\ l' = l + 1

TFinish ==
    /\ l = Len(Trace) + 1
    /\ viol' = Recorded
    /\ WriteVerdict(viol', Len(Trace))
    /\ l' = l + 1
    /\ UNCHANGED <<pvars, seen>>

TNext == TStep \/ TFinish
TSpec == TInit /\ [][TNext]_<<pvars, tvars>>
=============================================================================
