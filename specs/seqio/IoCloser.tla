------------------------------- MODULE IoCloser -------------------------------
(* Implementation-shaped model of iocloser.ReadCloser / WriteCloser (iocloser/*.go).         *)
(* Clients run programs of Read-or-Write(n) and Close calls concurrently.  A call is two     *)
(* steps: Call(p) runs up to the hook before closeMtx.Lock(); CS(p) is the critical section  *)
(* (Read/Write: the nil check and the wrapped call happen under the mutex; Close: take the   *)
(* close function, nil both fields) followed, for Close, by the call of the close function   *)
(* outside the mutex and the return -- nothing else can be scheduled in between because the  *)
(* controller does not park at the Unlocked hook.                                            *)
(* The wrapped stream is scripted: its i-th call returns Script[i] = <<k, e>> (k = -1: the   *)
(* whole buffer; e: 0 nil, 1 EOF, 2 other), the last entry repeats.                          *)
EXTENDS SeqioP

CONSTANTS
    Kind,        \* "rcloser" | "wcloser"
    Prog,        \* client -> sequence of <<0, n>> (Read/Write with a buffer of n bytes) | <<1, 0>> (Close)
    Script,
    NilStream, NilClose

Procs == 1..Len(Prog)

VARIABLES pc, ip, cid, nextId, stream, closeFn, wcalls, pos, started
xvars == <<pc, ip, cid, nextId, stream, closeFn, wcalls, pos, started>>

ErrOf(m) == CASE m = 1 -> "EOF" [] m = 2 -> "boom" [] OTHER -> ""
Alphabet == <<128, 195, 255, 0, 97>>
StreamBytes(from, n) == [i \in 1..n |-> Alphabet[((from + i - 1) % 5) + 1]]
\* the bytes a client writes in its j-th operation
WriteBytes(p, j, n) == [i \in 1..n |-> Alphabet[((p * 3 + j + i) % 5) + 1]]

Init ==
    /\ PInit
    /\ pc = [p \in Procs |-> "idle"] /\ ip = [p \in Procs |-> 1] /\ cid = [p \in Procs |-> 0]
    /\ nextId = 1 /\ stream = ~NilStream /\ closeFn = ~NilClose /\ wcalls = 0 /\ pos = 0 /\ started = FALSE

Begin == IF started THEN <<>> ELSE <<[ev |-> "new", h |-> Kind, nilstream |-> NilStream, nilclose |-> NilClose]>>

Op(p) == Prog[p][ip[p]]
OpName(o) == IF o[1] = 1 THEN "close" ELSE IF Kind = "rcloser" THEN "read" ELSE "write"

Call(p) ==
    /\ pc[p] = "idle" /\ ip[p] <= Len(Prog[p])
    /\ LET o == Op(p) IN
       Fire(Begin \o <<[ev |-> "call", id |-> nextId, op |-> OpName(o), n |-> o[2],
                        data |-> IF Kind = "wcloser" /\ o[1] = 0 THEN WriteBytes(p, ip[p], o[2]) ELSE <<>>]>>)
    /\ pc' = [pc EXCEPT ![p] = "parked"] /\ cid' = [cid EXCEPT ![p] = nextId] /\ nextId' = nextId + 1
    /\ started' = TRUE
    /\ UNCHANGED <<ip, stream, closeFn, wcalls, pos>>

CS(p) ==
    /\ pc[p] = "parked"
    /\ LET o == Op(p)  id == cid[p] IN
       IF o[1] = 1
       THEN \* Close
            /\ stream' = FALSE /\ closeFn' = FALSE
            /\ Fire((IF closeFn THEN <<[ev |-> "closefn", id |-> id]>> ELSE <<>>)
                    \o <<[ev |-> "ret", id |-> id, op |-> "close", res |-> "ok", n |-> 0, err |-> "", data |-> <<>>]>>)
            /\ UNCHANGED <<wcalls, pos>>
       ELSE IF ~stream
       THEN \* already closed (or built on a nil stream)
            /\ Fire(<<[ev |-> "ret", id |-> id, op |-> OpName(o), res |-> "ok", n |-> 0, err |-> "EOF", data |-> <<>>]>>)
            /\ UNCHANGED <<stream, closeFn, wcalls, pos>>
       ELSE LET sc == Script[Min2(wcalls + 1, Len(Script))]
                k == IF sc[1] < 0 \/ sc[1] > o[2] THEN o[2] ELSE sc[1]
                err == ErrOf(sc[2])
                d == IF Kind = "rcloser" THEN StreamBytes(pos, k) ELSE WriteBytes(p, ip[p], o[2])
            IN /\ Fire(<<[ev |-> "wrapped", id |-> id, n |-> o[2], rn |-> k, err |-> err, data |-> d],
                         [ev |-> "ret", id |-> id, op |-> OpName(o), res |-> "ok", n |-> k, err |-> err,
                          data |-> IF Kind = "rcloser" THEN d ELSE <<>>]>>)
               /\ wcalls' = wcalls + 1 /\ pos' = pos + k
               /\ UNCHANGED <<stream, closeFn>>
    /\ pc' = [pc EXCEPT ![p] = "idle"] /\ ip' = [ip EXCEPT ![p] = @ + 1]
    /\ UNCHANGED <<cid, nextId, started>>

Next == \E p \in Procs : Call(p) \/ CS(p)

ModelSafe == bad = {}
=============================================================================
