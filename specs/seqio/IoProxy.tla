------------------------------- MODULE IoProxy -------------------------------
(* Implementation-shaped model of ioproxy.ProxyStreams (ioproxy/ioproxy.go): two pump        *)
(* goroutines, pump p copies stream p to stream Other(p) with io.CopyBuffer (Read, then      *)
(* Write of what was read, until a Read returns an error or a Write fails), then closes its  *)
(* source, closes its destination, calls the callback and exits.                             *)
(* The streams are harness-owned: every Read / Write / Close of a pump is a separately        *)
(* schedulable step.  The environment feeds stream s with the items Feed[s] (a chunk of       *)
(* bytes with an error class: 0 nil, 1 EOF, 2 other; an item with no bytes must carry an      *)
(* error) and scripts the writes: the i-th Write on stream s accepts WScript[s][i] = <<k, e>> *)
(* (k = -1: everything), the last entry repeats.  A closed stream fails every Read and Write. *)
EXTENDS SeqioP

CONSTANTS Feed, WScript, NilCb

VARIABLES pc, hand, fed, inq, closed, wcnt, done
xvars == <<pc, hand, fed, inq, closed, wcnt, done>>

Pumps == 1..2
ErrOf(m) == CASE m = 1 -> "EOF" [] m = 2 -> "boom" [] OTHER -> ""

Init ==
    /\ ps = ProxyNew([nilcb |-> NilCb]) /\ bad = {}
    /\ pc = [p \in Pumps |-> "read"] /\ hand = [p \in Pumps |-> [d |-> <<>>, e |-> 0]]
    /\ fed = [s \in Pumps |-> 0] /\ inq = [s \in Pumps |-> <<>>] /\ closed = [s \in Pumps |-> FALSE]
    /\ wcnt = [s \in Pumps |-> 0] /\ done = FALSE

\* the peer of stream s produces the next item
FeedItem(s) ==
    /\ fed[s] < Len(Feed[s])
    /\ fed' = [fed EXCEPT ![s] = @ + 1]
    /\ inq' = [inq EXCEPT ![s] = Append(@, Feed[s][fed[s] + 1])]
    /\ UNCHANGED <<pvars, pc, hand, closed, wcnt, done>>

PRead(p) ==
    /\ pc[p] = "read" /\ (closed[p] \/ inq[p] # <<>>)
    /\ IF closed[p]
       THEN /\ Fire(<<[ev |-> "sread", s |-> p, res |-> "err", data |-> <<>>]>>)
            /\ pc' = [pc EXCEPT ![p] = "close1"]
            /\ UNCHANGED <<hand, inq>>
       ELSE LET it == Head(inq[p]) IN
            /\ Fire(<<[ev |-> "sread", s |-> p, res |-> IF it.e = 0 THEN "data" ELSE IF it.e = 1 THEN "eof" ELSE "err", data |-> it.d]>>)
            /\ inq' = [inq EXCEPT ![p] = Tail(@)]
            /\ hand' = [hand EXCEPT ![p] = it]
            /\ pc' = [pc EXCEPT ![p] = IF Len(it.d) > 0 THEN "write" ELSE "close1"]
    /\ UNCHANGED <<fed, closed, wcnt, done>>

PWrite(p) ==
    /\ pc[p] = "write"
    /\ LET dst == Other(p)
           sc == WScript[dst][Min2(wcnt[dst] + 1, Len(WScript[dst]))]
           len == Len(hand[p].d)
           k == IF closed[dst] THEN 0 ELSE IF sc[1] < 0 \/ sc[1] > len THEN len ELSE sc[1]
           err == IF closed[dst] THEN "closed" ELSE ErrOf(sc[2])
           okw == k = len /\ err = ""
       IN /\ Fire(<<[ev |-> "swrite", s |-> dst, data |-> hand[p].d, n |-> k, err |-> err]>>)
          /\ wcnt' = [wcnt EXCEPT ![dst] = IF closed[dst] THEN @ ELSE @ + 1]
          /\ pc' = [pc EXCEPT ![p] = IF okw /\ hand[p].e = 0 THEN "read" ELSE "close1"]
    /\ UNCHANGED <<hand, fed, inq, closed, done>>

PClose1(p) ==
    /\ pc[p] = "close1"
    /\ Fire(<<[ev |-> "sclose", s |-> p]>>)
    /\ closed' = [closed EXCEPT ![p] = TRUE]
    /\ pc' = [pc EXCEPT ![p] = "close2"]
    /\ UNCHANGED <<hand, fed, inq, wcnt, done>>

\* close the destination, then the callback, then the goroutine ends (one step)
PClose2(p) ==
    /\ pc[p] = "close2"
    /\ Fire(<<[ev |-> "sclose", s |-> Other(p)]>> \o (IF NilCb THEN <<>> ELSE <<[ev |-> "cb"]>>))
    /\ closed' = [closed EXCEPT ![Other(p)] = TRUE]
    /\ pc' = [pc EXCEPT ![p] = "done"]
    /\ UNCHANGED <<hand, fed, inq, wcnt, done>>

PumpEnabled(p) ==
    \/ pc[p] = "read" /\ (closed[p] \/ inq[p] # <<>>)
    \/ pc[p] \in {"write", "close1", "close2"}

\* nothing more can happen: the controller's final observation
Final ==
    /\ ~done /\ \A s \in Pumps : fed[s] = Len(Feed[s]) /\ ~PumpEnabled(s)
    /\ Fire(<<[ev |-> "final"]>>)
    /\ done' = TRUE
    /\ UNCHANGED <<pc, hand, fed, inq, closed, wcnt>>

Next == (\E s \in Pumps : FeedItem(s)) \/ (\E p \in Pumps : PRead(p) \/ PWrite(p) \/ PClose1(p) \/ PClose2(p)) \/ Final

ModelSafe == bad = {}
=============================================================================
