------------------------------- MODULE SeqioP -------------------------------
(* Property monitor for C20: the sequential helpers match their reference models.           *)
(*                                                                                          *)
(* One execution exercises ONE object of one helper kind (ioseek, iosizer, iocloser read /  *)
(* write, ioproxy, unique list / map).  The monitor is a deterministic reference model      *)
(* written as a pure step function  Step(s, e)  over the observable events e (the same      *)
(* records the Go driver logs as ndjson); it returns the new model state and the names of   *)
(* the clauses of C20 that event e violates.  The implementation-shaped specs (IoSeek,      *)
(* IoSizer, IoCloser, IoProxy, Unique) fire the same events, so `bad = {}` is their         *)
(* invariant; SeqioPTrace fires them from traces of the real code.                          *)
(*                                                                                          *)
(* Byte strings are sequences of integers.  Error values are classified by the driver:      *)
(* "" (nil), "EOF", or any other string.                                                    *)
(*                                                                                          *)
(* Reading of the statement (nothing beyond it is demanded):                                *)
(*  ioseek   Seek: target = offset | pos+offset | size+offset; if whence is valid and        *)
(*           0 <= target <= size it succeeds and returns target, otherwise it fails (the     *)
(*           returned number is then not judged) and the position is unchanged.  Read        *)
(*           returns what the wrapped ReadAt call delivered (count, error class), the bytes  *)
(*           are data[pos .. pos+n), pos advances by n.  The position is judged only through *)
(*           results.  The wrapped reader holds exactly `size` bytes (O2 of DESIGN §4).      *)
(*  iosizer  TotalSize = sum of the positive counts returned by Read/Write so far.  Nothing  *)
(*           else (pass-through, nil streams) is judged.                                    *)
(*  iocloser until a Close is issued a Read/Write reaches the wrapped stream exactly once    *)
(*           with the caller's buffer size / data and returns its result; a call issued      *)
(*           after some Close returned returns (0, EOF); the wrapped stream is never called  *)
(*           after some Close returned; the close function runs at most once, and has run    *)
(*           once when a Close returns while no other Close is in flight.  Calls that        *)
(*           overlap a Close may go either way.  Close's return value, a nil wrapped stream  *)
(*           before Close and a nil close function are not judged.                           *)
(*  ioproxy  per direction the bytes handed to Write continue, in order, the bytes Read      *)
(*           returned; when nothing more can happen every byte read was written unless a    *)
(*           Write failed; once a stream ended (EOF / error / failed write) both streams     *)
(*           were closed and the callback ran exactly twice (never more than twice).  A      *)
(*           Write that accepts fewer bytes WITHOUT an error (against io.Writer's contract)  *)
(*           only ends the delivery obligation of that direction, it is not an "end".        *)
(*  unique   after every call: one value per key, contents = reference contents (a value     *)
(*           replaces the stored one iff cmp says they differ); the notifications of the     *)
(*           call, replayed in order on the previous contents (removed -> delete, otherwise  *)
(*           store), give the new contents.  The added flag is not judged.                   *)
EXTENDS Integers, Sequences, FiniteSets, TLC

VARIABLES ps, bad
pvars == <<ps, bad>>

Null == [h |-> "none"]
PInit  == ps = Null /\ bad = {}
PReset == ps' = Null /\ bad' = {}

R(s, b) == [s |-> s, bad |-> b]

Min2(a, b) == IF a < b THEN a ELSE b
Take(s, n) == SubSeq(s, 1, n)
IsPrefixOf(p, s) == Len(p) <= Len(s) /\ Take(s, Len(p)) = p
Range(f) == {f[x] : x \in DOMAIN f}
NoCall == [op |-> "none"]

-----------------------------------------------------------------------------
(* ioseek.ReaderAtSeeker *)

SeekNew(e) == [h |-> "seek", data |-> e.data, off |-> 0, pend |-> FALSE, c |-> NoCall, w |-> <<>>]

SeekRet(s, e) ==
    LET size == Len(s.data)
        c == s.c
        target == CASE c.w = 0 -> c.o [] c.w = 1 -> s.off + c.o [] c.w = 2 -> size + c.o [] OTHER -> -1
        valid == c.w \in 0..2 /\ target >= 0 /\ target <= size
        s2 == [s EXCEPT !.pend = FALSE, !.c = NoCall, !.w = <<>>]
    IN IF e.res = "panic" THEN R(s2, {"SeekPos"})
       ELSE IF valid
            THEN R([s2 EXCEPT !.off = target], IF e.err = "" /\ e.pos = target THEN {} ELSE {"SeekPos"})
            ELSE R(s2, IF e.err # "" THEN {} ELSE {"SeekPos"})

ReadRet(s, e) ==
    LET size == Len(s.data)
        req == s.c.n
        s2 == [s EXCEPT !.pend = FALSE, !.c = NoCall, !.w = <<>>]
    IN IF e.res = "panic" THEN R(s2, {"ReadData"})
       ELSE LET nOK == /\ e.n >= 0 /\ e.n <= req /\ s.off + e.n <= size /\ Len(e.data) = e.n
                       /\ e.data = SubSeq(s.data, s.off + 1, s.off + e.n)
                noWrap == e.n = 0 /\ (req = 0 \/ (s.off >= size /\ e.err # ""))
                wr == s.w[Len(s.w)]
            IN R([s2 EXCEPT !.off = IF e.n >= 0 /\ s.off + e.n <= size THEN s.off + e.n ELSE s.off],
                 (IF nOK THEN {} ELSE {"ReadData"})
                 \cup (IF Len(s.w) = 0
                       THEN (IF noWrap THEN {} ELSE {"ReadData"})
                       ELSE (IF e.n = wr.n THEN {} ELSE {"ReadData"}) \cup (IF e.err = wr.err THEN {} ELSE {"ReadErr"})))

SeekStep(s, e) ==
    CASE e.ev = "call"    -> R([s EXCEPT !.pend = TRUE, !.c = e, !.w = <<>>], IF s.pend THEN {"Harness"} ELSE {})
      [] e.ev = "wrapped" -> R([s EXCEPT !.w = Append(@, e)], IF s.pend THEN {} ELSE {"Harness"})
      [] e.ev = "ret"     -> IF ~s.pend THEN R(s, {"Harness"})
                             ELSE IF s.c.op = "seek" THEN SeekRet(s, e) ELSE ReadRet(s, e)
      [] OTHER            -> R(s, {"Unexplained"})

-----------------------------------------------------------------------------
(* iosizer.SizeReadWriter *)

SizerNew(e) == [h |-> "sizer", sum |-> 0, pend |-> FALSE, c |-> NoCall]

SizerStep(s, e) ==
    CASE e.ev = "call" -> R([s EXCEPT !.pend = TRUE, !.c = e], IF s.pend THEN {"Harness"} ELSE {})
      [] e.ev = "wrapped" -> R(s, {})
      [] e.ev = "ret"  ->
            IF ~s.pend THEN R(s, {"Harness"})
            ELSE LET s2 == [s EXCEPT !.pend = FALSE, !.c = NoCall] IN
                 IF e.res = "panic" THEN R(s2, {})
                 ELSE IF s.c.op = "total"
                      THEN R(s2, IF e.total = s.sum THEN {} ELSE {"SizerTotal"})
                      ELSE R([s2 EXCEPT !.sum = @ + (IF e.n > 0 THEN e.n ELSE 0)], {})
      [] OTHER -> R(s, {"Unexplained"})

-----------------------------------------------------------------------------
(* iocloser.ReadCloser / WriteCloser *)

CloserNew(e) == [h |-> e.h, nilstream |-> e.nilstream, nilclose |-> e.nilclose,
                 calls |-> <<>>, pending |-> {}, w |-> <<>>,
                 closeCalled |-> FALSE, closeRet |-> FALSE, fn |-> 0]

\* does return event e of call c pass the wrapped result wr through?
PassThrough(h, c, wr, e) ==
    /\ wr.n = c.n /\ e.n = wr.rn /\ e.err = wr.err
    /\ IF h = "rcloser" THEN e.data = wr.data ELSE wr.data = c.data

CloserRet(s, e) ==
    LET c == s.calls[e.id]
        s2 == [s EXCEPT !.pending = @ \ {e.id}]
        W == IF e.id \in DOMAIN s.w THEN s.w[e.id] ELSE <<>>
    IN IF c.op = "close"
       THEN LET otherClose == \E j \in s.pending \ {e.id} : s.calls[j].op = "close" IN
            R([s2 EXCEPT !.closeRet = TRUE],
              IF ~s.nilclose /\ s.fn = 0 /\ ~otherClose THEN {"CloserOnce"} ELSE {})
       ELSE IF c.after
            THEN R(s2, IF e.res = "ok" /\ e.n = 0 /\ e.err = "EOF" THEN {} ELSE {"CloserAfterClose"})
       ELSE IF s.nilstream
            THEN R(s2, {})
       ELSE IF e.res = "panic"
            THEN R(s2, {"CloserPass"})
       ELSE IF ~s.closeCalled
            THEN R(s2, IF Len(W) = 1 /\ PassThrough(s.h, c, W[1], e) THEN {} ELSE {"CloserPass"})
       ELSE \* overlaps a Close: passed through, or refused without touching the stream
            R(s2, IF \/ Len(W) = 1 /\ PassThrough(s.h, c, W[1], e)
                     \/ Len(W) = 0 /\ e.n = 0 /\ e.err = "EOF"
                  THEN {} ELSE {"CloserPass"})

CloserStep(s, e) ==
    CASE e.ev = "call" ->
            R([s EXCEPT !.calls = (e.id :> [op |-> e.op, n |-> e.n, data |-> e.data, after |-> s.closeRet]) @@ @,
                        !.pending = @ \cup {e.id},
                        !.closeCalled = @ \/ e.op = "close"],
              IF e.id \in DOMAIN s.calls THEN {"Harness"} ELSE {})
      [] e.ev = "wrapped" ->
            R([s EXCEPT !.w = (e.id :> Append(IF e.id \in DOMAIN s.w THEN s.w[e.id] ELSE <<>>, e)) @@ @],
              (IF e.id \in s.pending THEN {} ELSE {"Harness"})
              \cup (IF s.closeRet THEN {"CloserAfterClose"} ELSE {}))
      [] e.ev = "closefn" ->
            R([s EXCEPT !.fn = @ + 1], IF s.fn >= 1 THEN {"CloserOnce"} ELSE {})
      [] e.ev = "ret" ->
            IF e.id \notin s.pending THEN R(s, {"Harness"}) ELSE CloserRet(s, e)
      [] OTHER -> R(s, {"Unexplained"})

-----------------------------------------------------------------------------
(* ioproxy.ProxyStreams *)

Other(k) == 3 - k
Two(v) == <<v, v>>

ProxyNew(e) == [h |-> "proxy", nilcb |-> e.nilcb, rd |-> Two(<<>>), wr |-> Two(<<>>), wfail |-> Two(FALSE),
                closes |-> Two(0), cbs |-> 0, term |-> FALSE]

ProxyStep(s, e) ==
    CASE e.ev = "sread" ->      \* the pump of stream e.s got (data, res) from Read
            R([s EXCEPT !.rd[e.s] = @ \o e.data, !.term = @ \/ e.res # "data"], {})
      [] e.ev = "swrite" ->     \* stream e.s was handed e.data and accepted e.n bytes
            LET failed == e.n < Len(e.data) \/ e.err # "" IN
            R([s EXCEPT !.wr[e.s] = @ \o Take(e.data, Min2(Len(e.data), IF e.n > 0 THEN e.n ELSE 0)),
                        !.wfail[e.s] = @ \/ failed, !.term = @ \/ e.err # ""],
              IF ~s.wfail[e.s] /\ ~IsPrefixOf(s.wr[e.s] \o e.data, s.rd[Other(e.s)]) THEN {"ProxyOrder"} ELSE {})
      [] e.ev = "sclose" -> R([s EXCEPT !.closes[e.s] = @ + 1], {})
      [] e.ev = "cb"     -> R([s EXCEPT !.cbs = @ + 1], IF s.cbs >= 2 THEN {"ProxyCallbacks"} ELSE {})
      [] e.ev = "final"  ->     \* nothing more can happen without further input
            R(s, (IF \E k \in 1..2 : ~s.wfail[k] /\ s.wr[k] # s.rd[Other(k)] THEN {"ProxyOrder"} ELSE {})
                 \cup (IF s.term /\ ~s.nilcb /\ s.cbs # 2 THEN {"ProxyCallbacks"} ELSE {})
                 \cup (IF s.term /\ (s.closes[1] = 0 \/ s.closes[2] = 0) THEN {"ProxyClose"} ELSE {}))
      [] OTHER -> R(s, {"Unexplained"})

-----------------------------------------------------------------------------
(* unique.KeyedList / KeyedMap.  A value is <<key, class, tag>>; cmp compares the class.     *)

Without(f, K) == [x \in DOMAIN f \ K |-> f[x]]
Triples(f) == {<<k, f[k][1], f[k][2]>> : k \in DOMAIN f}
FromTriples(T) == [k \in {t[1] : t \in T} |-> LET t == CHOOSE t \in T : t[1] = k IN <<t[2], t[3]>>]
SeqSet(q) == {q[i] : i \in 1..Len(q)}

Upsert(f, v) == IF v[1] \in DOMAIN f /\ f[v[1]][1] = v[2] THEN f ELSE (v[1] :> <<v[2], v[3]>>) @@ f
UpsertAll(f, q) == LET g[i \in 0..Len(q)] == IF i = 0 THEN f ELSE Upsert(g[i-1], q[i]) IN g[Len(q)]

Expected(f, c) ==
    CASE c.op = "set"    -> Without(UpsertAll(f, c.vals), DOMAIN UpsertAll(f, c.vals) \ {v[1] : v \in SeqSet(c.vals)})
      [] c.op = "append" -> UpsertAll(f, c.vals)
      [] c.op = "rmvals" -> Without(f, {v[1] : v \in SeqSet(c.vals)})
      [] c.op = "rmkeys" -> Without(f, SeqSet(c.keys))

Replay(f, ns) ==
    LET g[i \in 0..Len(ns)] ==
            IF i = 0 THEN f
            ELSE IF ns[i].removed THEN Without(g[i-1], {ns[i].k})
            ELSE (ns[i].k :> <<ns[i].c, ns[i].g>>) @@ g[i-1]
    IN g[Len(ns)]

UniqueNew(e) == [h |-> e.h, vals |-> FromTriples(SeqSet(e.init)), notifs |-> <<>>, pend |-> FALSE, c |-> NoCall]

UniqueStep(s, e) ==
    CASE e.ev = "call"   -> R([s EXCEPT !.pend = TRUE, !.c = e, !.notifs = <<>>], IF s.pend THEN {"Harness"} ELSE {})
      [] e.ev = "notify" -> R([s EXCEPT !.notifs = Append(@, e)], IF s.pend THEN {} ELSE {"Harness"})
      [] e.ev = "ret"    ->
            IF ~s.pend THEN R(s, {"Harness"})
            ELSE LET obs == SeqSet(e.contents)
                     oneper == Cardinality({t[1] : t \in obs}) = Len(e.contents) /\ {t[1] : t \in obs} = SeqSet(e.keys)
                                 /\ Len(e.keys) = Len(e.contents)
                     s2 == [s EXCEPT !.pend = FALSE, !.c = NoCall, !.notifs = <<>>]
                 IN IF e.res = "panic" THEN R(s2, {"UniqueContents"})
                    ELSE R([s2 EXCEPT !.vals = IF oneper THEN FromTriples(obs) ELSE s.vals],
                           (IF oneper /\ obs = Triples(Expected(s.vals, s.c)) THEN {} ELSE {"UniqueContents"})
                           \cup (IF obs = Triples(Replay(s.vals, s.notifs)) THEN {} ELSE {"UniqueNotify"}))
      [] OTHER -> R(s, {"Unexplained"})

-----------------------------------------------------------------------------
New(e) ==
    CASE e.h = "seek"  -> SeekNew(e)
      [] e.h = "sizer" -> SizerNew(e)
      [] e.h \in {"rcloser", "wcloser"} -> CloserNew(e)
      [] e.h = "proxy" -> ProxyNew(e)
      [] e.h \in {"klist", "kmap"} -> UniqueNew(e)

Step(s, e) ==
    IF e.ev = "new" THEN R(New(e), IF s.h = "none" THEN {} ELSE {"Harness"})
    ELSE CASE s.h = "seek"  -> SeekStep(s, e)
           [] s.h = "sizer" -> SizerStep(s, e)
           [] s.h \in {"rcloser", "wcloser"} -> CloserStep(s, e)
           [] s.h = "proxy" -> ProxyStep(s, e)
           [] s.h \in {"klist", "kmap"} -> UniqueStep(s, e)
           [] OTHER -> R(s, {"Unexplained"})

\* the effect of a sequence of events
Run(s, es) ==
    LET g[i \in 0..Len(es)] ==
            IF i = 0 THEN R(s, {})
            ELSE LET r == Step(g[i-1].s, es[i]) IN R(r.s, g[i-1].bad \cup r.bad)
    IN g[Len(es)]

\* the action used by the X specs and the trace spec
Fire(es) == LET r == Run(ps, es) IN ps' = r.s /\ bad' = bad \cup r.bad

Violated == bad

\* name of violated condition -> property id
PropertyOf == [SeekPos |-> "C20", ReadData |-> "C20", ReadErr |-> "C20", SizerTotal |-> "C20",
               CloserOnce |-> "C20", CloserAfterClose |-> "C20", CloserPass |-> "C20",
               ProxyOrder |-> "C20", ProxyCallbacks |-> "C20", ProxyClose |-> "C20",
               UniqueContents |-> "C20", UniqueNotify |-> "C20",
               Harness |-> "HARNESS", Unexplained |-> "HARNESS"]
=============================================================================
