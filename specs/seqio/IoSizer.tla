------------------------------- MODULE IoSizer -------------------------------
(* Implementation-shaped model of iosizer.SizeReadWriter (iosizer/iosizer.go): every         *)
(* sequence of at most MaxOps Read / Write / TotalSize calls; the wrapped reader and writer  *)
(* are scripted per call: they return count k (<= buffer length) and an error class          *)
(* (0 nil, 1 EOF, 2 other), including k > 0 together with an error.  NilR / NilW: the        *)
(* object was built with a nil reader / writer.                                              *)
EXTENDS SeqioP

CONSTANTS Lens, Errs, NilR, NilW, MaxOps

VARIABLES total, hist
xvars == <<total, hist>>

ErrOf(m) == CASE m = 1 -> "EOF" [] m = 2 -> "boom" [] OTHER -> ""

Init == PInit /\ total = 0 /\ hist = <<>>

Begin == IF hist = <<>> THEN <<[ev |-> "new", h |-> "sizer", nilr |-> NilR, nilw |-> NilW]>> ELSE <<>>

\* Read (dir = 0) or Write (dir = 1) with a buffer of length len; the wrapped stream answers (k, e)
Xfer(dir, len, k, e) ==
    /\ Len(hist) < MaxOps /\ k <= len
    /\ LET isnil == IF dir = 0 THEN NilR ELSE NilW
           n == IF isnil THEN 0 ELSE k
           err == IF isnil THEN "EOF" ELSE ErrOf(e)
           op == IF dir = 0 THEN "read" ELSE "write"
       IN /\ total' = IF n > 0 THEN total + n ELSE total
          /\ Fire(Begin \o <<[ev |-> "call", op |-> op, n |-> len]>>
                        \o (IF isnil THEN <<>> ELSE <<[ev |-> "wrapped", op |-> op, n |-> len, rn |-> k, err |-> err]>>)
                        \o <<[ev |-> "ret", res |-> "ok", n |-> n, err |-> err]>>)
    /\ hist' = Append(hist, <<dir, len, k, e>>)

Total ==
    /\ Len(hist) < MaxOps
    /\ Fire(Begin \o <<[ev |-> "call", op |-> "total", n |-> 0], [ev |-> "ret", res |-> "ok", total |-> total]>>)
    /\ hist' = Append(hist, <<2, 0, 0, 0>>)
    /\ UNCHANGED total

Next == Total \/ \E dir \in 0..1, len \in Lens, k \in 0..3, e \in Errs : Xfer(dir, len, k, e)

ModelSafe == bad = {}
Agree == ps.h = "sizer" => ps.sum = total
=============================================================================
