------------------------------- MODULE Unique -------------------------------
(* Implementation-shaped model of unique.KeyedList / KeyedMap (unique/keyedlist.go,          *)
(* unique/keyedmap.go): every sequence of at most MaxOps calls of SetValues / AppendValues / *)
(* RemoveValues / RemoveKeys with argument lists of length <= MaxArgs over a small value     *)
(* domain.  A value is <<key, class, tag>>: getKey returns the key, cmp compares the class,  *)
(* the tag distinguishes cmp-equal values.  IsMap: argument lists have distinct keys (a Go   *)
(* map) and RemoveValues does not exist.  `vals` is the object's map; the removal loop of    *)
(* SetValues iterates a Go map (any order): the model takes ascending key order, the monitor *)
(* is order-insensitive there because the keys are distinct.                                 *)
EXTENDS SeqioP

CONSTANTS Values, Keys, MaxArgs, MaxOps, IsMap, Initial,
          UseHist   \* TRUE: the graph is the tree of all call sequences up to MaxOps;
                    \* FALSE: the graph is (contents) x (every call), of any length

VARIABLES vals, hist
xvars == <<vals, hist>>

SeqsUpTo(S, n) == UNION {[1..k -> S] : k \in 0..n}
DistinctKeys(q) == \A i, j \in 1..Len(q) : i # j => q[i][1] # q[j][1]
ArgLists == {q \in SeqsUpTo(Values, MaxArgs) : IsMap => DistinctKeys(q)}
KeyLists == SeqsUpTo(Keys, MaxArgs)

H == IF IsMap THEN "kmap" ELSE "klist"
Notif(k, v, added, removed) == [ev |-> "notify", k |-> k, c |-> v[1], g |-> v[2], added |-> added, removed |-> removed]

\* the loop shared by SetValues and AppendValues: returns the map and the notifications
Store(f0, q) ==
    LET g[i \in 0..Len(q)] ==
          IF i = 0 THEN [f |-> f0, ns |-> <<>>]
          ELSE LET f == g[i-1].f  v == q[i]  k == v[1]  nv == <<v[2], v[3]>> IN
               IF k \in DOMAIN f
               THEN IF f[k][1] # v[2]                        \* !cmp(k, v, existing)
                    THEN [f |-> [f EXCEPT ![k] = nv], ns |-> Append(g[i-1].ns, Notif(k, nv, FALSE, FALSE))]
                    ELSE g[i-1]
               ELSE [f |-> (k :> nv) @@ f, ns |-> Append(g[i-1].ns, Notif(k, nv, TRUE, FALSE))]
    IN g[Len(q)]

\* remove the keys of the sequence ks in order (keys not present are ignored)
Remove(f0, ks) ==
    LET g[i \in 0..Len(ks)] ==
          IF i = 0 THEN [f |-> f0, ns |-> <<>>]
          ELSE LET f == g[i-1].f  k == ks[i] IN
               IF k \in DOMAIN f
               THEN [f |-> Without(f, {k}), ns |-> Append(g[i-1].ns, Notif(k, f[k], FALSE, TRUE))]
               ELSE g[i-1]
    IN g[Len(ks)]

SortedSeq(S) == LET g[i \in 0..Cardinality(S)] ==
                      IF i = 0 THEN <<>>
                      ELSE Append(g[i-1], CHOOSE x \in S : x \notin SeqSet(g[i-1]) /\ \A y \in S \ SeqSet(g[i-1]) : x <= y)
                IN g[Cardinality(S)]

ImplSet(f, q) ==
    LET notSeen == DOMAIN f \ {v[1] : v \in SeqSet(q)}
        a == Store(f, q)
        b == Remove(a.f, SortedSeq(notSeen))
    IN [f |-> b.f, ns |-> a.ns \o b.ns]

Contents(f) == LET ks == SortedSeq(DOMAIN f) IN [i \in 1..Len(ks) |-> <<ks[i], f[ks[i]][1], f[ks[i]][2]>>]
KeysOf(f) == SortedSeq(DOMAIN f)

Init == PInit /\ vals = FromTriples(Initial) /\ hist = <<>>

SortedTriples == Contents(FromTriples(Initial))
Begin == IF hist = <<>> THEN <<[ev |-> "new", h |-> H, init |-> SortedTriples]>> ELSE <<>>

Do(op, arg, r) ==
    /\ vals' = r.f
    /\ Fire(Begin \o <<IF op = "rmkeys" THEN [ev |-> "call", op |-> op, keys |-> arg]
                                        ELSE [ev |-> "call", op |-> op, vals |-> arg]>>
                  \o r.ns
                  \o <<[ev |-> "ret", res |-> "ok", contents |-> Contents(r.f), keys |-> KeysOf(r.f)]>>)
    /\ hist' = IF UseHist THEN Append(hist, <<op, arg>>) ELSE <<"started">>

More == ~UseHist \/ Len(hist) < MaxOps
Set(q)     == More /\ Do("set", q, ImplSet(vals, q))
Append_(q) == More /\ Do("append", q, Store(vals, q))
RmVals(q)  == More /\ ~IsMap /\ Do("rmvals", q, Remove(vals, [i \in 1..Len(q) |-> q[i][1]]))
RmKeys(ks) == More /\ Do("rmkeys", ks, Remove(vals, ks))

Next == (\E q \in ArgLists : Set(q) \/ Append_(q) \/ RmVals(q)) \/ (\E ks \in KeyLists : RmKeys(ks))

ModelSafe == bad = {}
Agree == ps.h \in {"klist", "kmap"} => Triples(ps.vals) = Triples(vals)
=============================================================================
