------------------------------- MODULE IoSeek -------------------------------
(* Implementation-shaped model of ioseek.ReaderAtSeeker (ioseek/reader-at-seeker.go) driven  *)
(* by every sequence of at most MaxOps calls over small argument domains; the wrapped        *)
(* ReaderAt is the harness reader over exactly Len(Data) bytes, which can be told (per call) *)
(* to answer in full, short, short with an error, with an error only, or in full with an     *)
(* error.  `hist` makes the state graph the tree of all call sequences: its paths are the    *)
(* histories replayed on the real object.                                                    *)
EXTENDS SeqioP

CONSTANTS Data, Offs, Whences, Ns, Modes, MaxOps

VARIABLES offset, hist
xvars == <<offset, hist>>

Size == Len(Data)
ErrOf(m) == CASE m = 1 -> "EOF" [] m = 2 -> "boom" [] OTHER -> ""

\* the harness ReaderAt: mode 0 full (bytes.Reader semantics), 1 short, 2 short + error,
\* 3 error only, 4 full + error
Wrapped(off, len, mode) ==
    LET avail == IF off >= Size THEN 0 ELSE Size - off
        full == Min2(len, avail)
        short == IF full >= 1 THEN full - 1 ELSE 0
    IN CASE mode = 0 -> [n |-> full, err |-> IF off >= Size \/ full < len THEN "EOF" ELSE ""]
         [] mode = 1 -> [n |-> short, err |-> ""]
         [] mode = 2 -> [n |-> short, err |-> "boom"]
         [] mode = 3 -> [n |-> 0, err |-> "boom"]
         [] mode = 4 -> [n |-> full, err |-> "boom"]

Init == PInit /\ offset = 0 /\ hist = <<>>

Begin == IF hist = <<>> THEN <<[ev |-> "new", h |-> "seek", data |-> Data]>> ELSE <<>>

Seek(o, w) ==
    /\ Len(hist) < MaxOps
    /\ LET newOffset == CASE w = 0 -> o [] w = 1 -> offset + o [] w = 2 -> Size + o [] OTHER -> 0
           res == IF w \notin 0..2 THEN [pos |-> 0, err |-> "invalid whence"]
                  ELSE IF newOffset < 0 THEN [pos |-> 0, err |-> "negative position"]
                  ELSE IF newOffset > Size THEN [pos |-> 0, err |-> "EOF"]
                  ELSE [pos |-> newOffset, err |-> ""]
       IN /\ offset' = IF res.err = "" THEN newOffset ELSE offset
          /\ Fire(Begin \o <<[ev |-> "call", op |-> "seek", o |-> o, w |-> w],
                              [ev |-> "ret", res |-> "ok", pos |-> res.pos, err |-> res.err]>>)
    /\ hist' = Append(hist, <<0, o, w>>)

Read(n, m) ==
    /\ Len(hist) < MaxOps
    /\ LET r == Wrapped(offset, n, m) IN
       /\ offset' = offset + r.n
       /\ Fire(Begin \o <<[ev |-> "call", op |-> "read", n |-> n],
                           [ev |-> "wrapped", off |-> offset, len |-> n, n |-> r.n, err |-> r.err],
                           [ev |-> "ret", res |-> "ok", n |-> r.n, err |-> r.err,
                            data |-> SubSeq(Data, offset + 1, offset + r.n)]>>)
    /\ hist' = Append(hist, <<1, n, m>>)

Next == (\E o \in Offs, w \in Whences : Seek(o, w)) \/ (\E n \in Ns, m \in Modes : Read(n, m))

ModelSafe == bad = {}
Agree == ps.h = "seek" => ps.off = offset
=============================================================================
