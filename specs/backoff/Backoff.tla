------------------------------- MODULE Backoff -------------------------------
(* Implementation-shaped model of the object backoff.Backoff.Construct returns               *)
(* (/repo/backoff/backoff.go constructExpo / constructConstant on top of cenkalti/backoff/v4 *)
(* ExponentialBackOff / ConstantBackOff), as a state machine over a bounded alphabet:        *)
(*   Construct(i)  pick config Configs[i], apply the defaults the way the code does, Reset   *)
(*   Next(q)       NextBackOff: elapsed := now - startTime; next := currentInterval          *)
(*                 (randomized: q = -1 / 0 / 1 stands for the lowest / middle / highest      *)
(*                 draw); incrementCurrentInterval; Stop iff MaxElapsedTime # 0 and          *)
(*                 elapsed + next > MaxElapsedTime                                           *)
(*   Reset         currentInterval := InitialInterval; startTime := now                      *)
(*   Advance(d)    the virtual clock moves by d ms (Advs includes 20 minutes: more than the  *)
(*                 15-minute MaxElapsedTime cenkalti presets and Construct must clear)       *)
(*   Validate(a), Empty   Backoff.Validate(allowEmpty) / GetEmpty (no state change; offered   *)
(*                 only before the first Next after a Construct / Reset, to keep the graph   *)
(*                 free of a self-loop on every state)                                       *)
(* The multiplier is the rational num/den (the float32 of the code is a matter of the        *)
(* tolerance in BackoffP).  Every API-visible action fires the event the Go driver logs for  *)
(* it, so ModelSafe is X |= P; the state graph supplies the operation sequences the driver   *)
(* replays on the real object (an edge cover, one scenario per path).                        *)
EXTENDS BackoffP

CONSTANTS Configs,    \* sequence of records [kind, ini, num, den, max, rnum, rden, mel, civ]; 0 = field not set
          Advs,       \* advance amounts (ms)
          MaxNow,     \* bound on the virtual clock (ms)
          MaxAdv      \* Advance steps per path

VARIABLES cfg, cur, start, now, last, stopped, nadv
xvars == <<cfg, cur, start, now, last, stopped, nadv>>

None == [res |-> "none"]
C == Configs[cfg]
Known == cfg # 0 /\ C.kind \in {0, 1, 2}
IsConst == C.kind = 2

\* the fields as constructExpo / constructConstant set them
Ini == Ms(IF C.ini = 0 THEN 800 ELSE C.ini)
Num == IF C.num = 0 THEN 9 ELSE C.num
Den == IF C.num = 0 THEN 5 ELSE C.den
Max == Ms(IF C.max = 0 THEN 20000 ELSE C.max)
Mel == C.mel        \* "if GetMaxElapsedTime() == 0 { MaxElapsedTime = 0 }": 0 = no limit
Civ == Ms(IF C.civ = 0 THEN 5000 ELSE C.civ)

Stamp(e) == e @@ [tu |-> now.u, tn |-> now.n]

Init == PInit /\ cfg = 0 /\ cur = Zero /\ start = Zero /\ now = Zero /\ last = None /\ stopped = FALSE /\ nadv = 0

Construct(i) ==
    /\ cfg = 0
    /\ cfg' = i
    /\ cur' = Ms(IF Configs[i].ini = 0 THEN 800 ELSE Configs[i].ini)
    /\ start' = now
    /\ Fire(<<Stamp([ev |-> "new", h |-> "bo"] @@ Configs[i])>>)
    /\ UNCHANGED <<now, last, stopped, nadv>>

Next(q) ==
    /\ Known
    /\ IF IsConst
       THEN /\ q = 0
            /\ Fire(<<Stamp([ev |-> "next", res |-> "val", u |-> Civ.u, n |-> Civ.n])>>)
            /\ UNCHANGED <<cur, last, stopped>>
       ELSE LET elapsed == DSub(now, start)
                next == IF C.rnum = 0 \/ q = 0 THEN cur
                        ELSE IF q < 0 THEN MulFloor(cur, C.rden - C.rnum, C.rden)
                        ELSE MulFloor(cur, C.rden + C.rnum, C.rden)
                \* float64(cur) >= float64(MaxInterval) / Multiplier
                atCap == DLe(MulFloor(Max, Den, 1), MulFloor(cur, Num, 1))
                stop == Mel # 0 /\ DLt(Ms(Mel), DAdd(elapsed, next))
            IN /\ (C.rnum = 0 => q = 0)
               /\ cur' = IF atCap THEN Max ELSE MulFloor(cur, Num, Den)
               /\ last' = [res |-> "val", d |-> cur]
               /\ stopped' = (stopped \/ stop)
               /\ Fire(<<Stamp(IF stop THEN [ev |-> "next", res |-> "stop", u |-> 0, n |-> 0]
                                       ELSE [ev |-> "next", res |-> "val", u |-> next.u, n |-> next.n])>>)
    /\ UNCHANGED <<cfg, start, now, nadv>>

Reset ==
    /\ Known
    /\ cur' = (IF IsConst THEN cur ELSE Ini)
    /\ start' = now
    /\ last' = None
    /\ Fire(<<Stamp([ev |-> "boreset"])>>)
    /\ UNCHANGED <<cfg, now, stopped, nadv>>

Advance(d) ==
    /\ Known
    /\ nadv < MaxAdv
    /\ now.u \div 1000 + d <= MaxNow
    /\ now' = DAdd(now, Ms(d))
    /\ nadv' = nadv + 1
    /\ Fire(<<[ev |-> "advance", d |-> d, tu |-> now'.u, tn |-> now'.n]>>)
    /\ UNCHANGED <<cfg, cur, start, last, stopped>>

Validate(a) ==
    /\ cfg # 0 /\ last = None
    /\ LET k == C.kind
           err == IF ~a /\ k = 0 THEN TRUE ELSE k \notin {0, 1, 2}
       IN Fire(<<Stamp([ev |-> "validate", allow |-> a, err |-> err])>>)
    /\ UNCHANGED xvars

Empty ==
    /\ cfg # 0 /\ last = None
    /\ Fire(<<Stamp([ev |-> "empty", res |-> (C.kind = 0)])>>)
    /\ UNCHANGED xvars

Next_ ==
    \/ \E i \in DOMAIN Configs : Construct(i)
    \/ \E q \in {-1, 0, 1} : Next(q)
    \/ Reset
    \/ \E d \in Advs : Advance(d)
    \/ \E a \in BOOLEAN : Validate(a)
    \/ Empty

Spec == Init /\ [][Next_]_<<pvars, xvars>>

-----------------------------------------------------------------------------
ModelSafe == bad = {}

Expo == Known /\ ~IsConst
Sane == DLe(Ini, Max)

\* model and monitor agree on the clock and (within the monitor's tolerance) on the current interval
Agree == Expo => /\ ps.now = now
                 /\ DiffNs(ps.b.cur, cur) <= ps.b.tol /\ DiffNs(cur, ps.b.cur) <= ps.b.tol
                 /\ ps.b.start = start

\* the interval stays within [initial, max] (for configs with initial <= max)
Bounds == (Expo /\ Sane) => (DLe(Ini, cur) /\ DLe(cur, Max))

\* the un-randomized intervals never decrease between two Resets
Monotone == (Expo /\ Sane /\ last.res = "val") => DLe(last.d, cur)

\* Stop is only ever returned when a max_elapsed_time is configured
StopOnlyIfLimited == stopped => (Expo /\ Mel # 0)
=============================================================================
