-------------------------------- MODULE Retry --------------------------------
(* Implementation-shaped model of retry.Retry (/repo/retry/retry.go) around a scripted       *)
(* backoff (the harness BackOff that plays Script, -1 = Stop) and a scripted f:              *)
(*                                                                                          *)
(*   for { err := f(ctx, bo.Reset)                       Invoke(o): one invocation with      *)
(*         select { case <-ctx.Done(): return ctx.Err()    outcome o, the two checks after   *)
(*                  default: }                             it and bo.NextBackOff()           *)
(*         if err == nil { return nil }                                                      *)
(*         b := bo.NextBackOff()                                                             *)
(*         select { case <-ctx.Done(): return ctx.Err()  ExtCancel: cancelled while waiting  *)
(*                  case <-time.After(b): } }            Timer: the wait elapses             *)
(*   (ExtCancel happens 1 ms after the last whole ms before it: the fam script recomputes    *)
(*   that time from the path.)                                                              *)
(*                                                                                          *)
(* A negative b (Stop = -1) makes time.After fire at once: Timer then takes no time and f    *)
(* is invoked again -- modelled as the code has it (see BackoffP, R1).                       *)
(* Outcomes of f: 0 err, 1 nil, 2 success() then err, 3 cancel ctx then err, 4 cancel ctx    *)
(* then nil, 5 success() then nil; after MaxInv invocations f returns nil (as the driver's   *)
(* script does when exhausted).  f takes no virtual time here; the seeded scenarios also     *)
(* give it a duration.  The paths of the state graph are the (outcome script, cancel time)   *)
(* pairs the driver replays.                                                                 *)
EXTENDS BackoffP

CONSTANTS Script,      \* sequence of intervals in us, -1 = Stop; played cyclically, Reset rewinds
          Outcomes,    \* subset of 0..5
          MaxInv

VARIABLES pc, inv, now, pos, cancelled, iv
xvars == <<pc, inv, now, pos, cancelled, iv>>

St(e) == e @@ [tu |-> now.u, tn |-> now.n]
ZeroCfg == [kind |-> 0, ini |-> 0, num |-> 0, den |-> 0, max |-> 0, rnum |-> 0, rden |-> 0, mel |-> 0, civ |-> 0]

Init == PInit /\ pc = "start" /\ inv = 0 /\ now = Zero /\ pos = 0 /\ cancelled = FALSE /\ iv = 0

Start ==
    /\ pc = "start"
    /\ Fire(<<St([ev |-> "new", h |-> "retry", bo |-> "script"] @@ ZeroCfg)>>)
    /\ pc' = "call"
    /\ UNCHANGED <<inv, now, pos, cancelled, iv>>

Invoke(o) ==
    /\ pc = "call"
    /\ (inv >= MaxInv => o = 1)
    /\ LET i == inv + 1
           succ == o \in {2, 5}
           canc == o \in {3, 4}
           isnil == o \in {1, 4, 5}
           pos1 == IF succ THEN 0 ELSE pos
           v == Script[(pos1 % Len(Script)) + 1]
           evF == <<St([ev |-> "inv", i |-> i])>>
                  \o (IF succ THEN <<St([ev |-> "succ"]), St([ev |-> "boreset"]), St([ev |-> "succret"])>> ELSE <<>>)
                  \o (IF canc THEN <<St([ev |-> "cancel"])>> ELSE <<>>)
                  \o <<St([ev |-> "invret", i |-> i, out |-> IF isnil THEN "nil" ELSE "err"])>>
       IN /\ inv' = i
          /\ cancelled' = (cancelled \/ canc)
          /\ IF cancelled'
             THEN /\ Fire(evF \o <<St([ev |-> "ret", err |-> "canceled"])>>)
                  /\ pc' = "done" /\ pos' = pos1 /\ iv' = 0
             ELSE IF isnil
             THEN /\ Fire(evF \o <<St([ev |-> "ret", err |-> ""])>>)
                  /\ pc' = "done" /\ pos' = pos1 /\ iv' = 0
             ELSE /\ Fire(evF \o <<St(IF v < 0 THEN [ev |-> "next", res |-> "stop", u |-> 0, n |-> 0]
                                               ELSE [ev |-> "next", res |-> "val", u |-> v, n |-> 0])>>)
                  /\ pc' = "wait" /\ pos' = pos1 + 1 /\ iv' = v
    /\ UNCHANGED now

\* time.After(b) fires (at once when b <= 0)
Timer ==
    /\ pc = "wait"
    /\ now' = (IF iv > 0 THEN DAdd(now, Dur(iv, 0)) ELSE now)
    /\ pc' = "call"
    /\ UNCHANGED <<inv, pos, cancelled, iv, pvars>>

\* the context is cancelled from outside while Retry waits (only offered when the wait is long enough
\* for "1 ms after the next whole ms" to fall inside it)
ExtCancel ==
    /\ pc = "wait" /\ iv >= 3000
    /\ now' = Ms(now.u \div 1000 + 1)
    /\ cancelled' = TRUE
    /\ Fire(<<[ev |-> "cancel", tu |-> now'.u, tn |-> 0], [ev |-> "ret", err |-> "canceled", tu |-> now'.u, tn |-> 0]>>)
    /\ pc' = "done"
    /\ UNCHANGED <<inv, pos, iv>>

Final ==
    /\ pc = "done"
    /\ Fire(<<St([ev |-> "final", returned |-> TRUE])>>)
    /\ pc' = "end"
    /\ UNCHANGED <<inv, now, pos, cancelled, iv>>

Next_ ==
    \/ Start
    \/ \E o \in Outcomes : Invoke(o)
    \/ Timer
    \/ ExtCancel
    \/ Final

Spec == Init /\ [][Next_]_<<pvars, xvars>>

ModelSafe == bad = {}
\* Retry has returned iff the model is past "done"; nil only after an invocation that returned nil
Agree == (pc \in {"done", "end"}) = (ps.h = "retry" /\ ps.returned)
=============================================================================
