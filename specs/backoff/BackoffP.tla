------------------------------- MODULE BackoffP -------------------------------
(* Property monitor / reference model for X01 (spec growth beyond the 20 listed properties): *)
(* backoff.Backoff.{Construct, Validate, GetEmpty} (/repo/backoff/backoff.go, config types  *)
(* from backoff.proto) and retry.{Retry, NewBackOff, DefaultBackoff} (/repo/retry/retry.go). *)
(*                                                                                          *)
(* The statements below are the oracle.  They are taken from the doc comments of            *)
(* backoff.proto / backoff.go / retry.go (and, for what an "exponential backoff" is, from   *)
(* the doc comment of cenkalti/backoff/v4 ExponentialBackOff, the type Construct returns);  *)
(* where those are silent the weaker reading is taken and marked [weak].                     *)
(*                                                                                          *)
(* B1 Construct of a config of kind UNKNOWN(0) or EXPONENTIAL(1) yields an exponential       *)
(*    backoff.  With randomization_factor 0 the n-th NextBackOff (n = 0, 1, ..) after a      *)
(*    Reset (Construct counts as a Reset) returns min(initial * multiplier^n, max_interval); *)
(*    a field that is 0 takes its documented default: initial 800 ms, multiplier 1.8,        *)
(*    max_interval 20 s.  Reset restarts the sequence.  With max_elapsed_time = 0 it NEVER   *)
(*    returns Stop, however much time passes.  With max_elapsed_time = M > 0 it returns Stop *)
(*    exactly when (time since the last Reset) + (the interval it would return) > M.         *)
(*    [weak] The docs do not say how the product is rounded: the reference sequence is       *)
(*      cur' = min(floor(cur * multiplier), max) in whole nanoseconds and every observed     *)
(*      interval may differ from it by the accumulated tolerance `tol` (see SeqStep).        *)
(*    [weak] "max_elapsed_time ... might be ignored" (backoff.proto) is read as a remark on  *)
(*      consumers of the backoff (retry.Retry does ignore Stop, see R1), not on the object   *)
(*      Construct returns.  The three ways to get Stop wrong have names of their own:        *)
(*      ExpStopNever (Stop although M = 0), ExpStopEarly (Stop although elapsed + interval   *)
(*      <= M), ExpStopMissing (an interval v returned although elapsed + v > M).             *)
(*    [weak] Whether a call that returns Stop advances the sequence is not documented.  With *)
(*      randomization 0 and multiplier >= 1 both readings demand Stop from every later call  *)
(*      until the next Reset, so nothing has to be chosen; with randomization the lower      *)
(*      bound of B3 is then taken from the interval of the first Stop (field lcur; for a     *)
(*      config with initial > max, where the sequence steps DOWN to max, the upper bound too).*)
(*    [weak] initial_interval > max_interval: "initial interval" and "maximum interval"      *)
(*      contradict each other for the first call after a Reset; either value is accepted     *)
(*      there (the code returns the initial interval), the following ones must be max, and   *)
(*      Stop is not judged for such a config.  Multipliers below 1 are not exercised.        *)
(* B2 Construct of a CONSTANT(2) config always returns the configured interval (default     *)
(*    5000 ms when the field is 0) and never Stop.                                           *)
(* B3 With randomization_factor r in (0,1] every returned interval lies in                   *)
(*    [cur*(1-r), cur*(1+r)], cur being the un-randomized interval of B1; that sequence      *)
(*    advances as in B1.  Stop with r > 0: the interval that "would be returned" is not      *)
(*    observable when Stop is returned, so [weak] Stop is accepted iff M > 0 and             *)
(*    elapsed + cur*(1+r) > M, and a returned interval v must satisfy elapsed + v <= M.      *)
(* B4 Validate: kind numbers other than 0, 1, 2 are rejected; the empty config (GetEmpty,    *)
(*    kind = 0) is rejected iff !allowEmpty; everything else is accepted.                    *)
(* R1 retry.Retry(ctx, le, f, bo):                                                           *)
(*    - returns nil only if the last invocation of f returned nil; if an invocation returned *)
(*      nil and the context was not cancelled, it returns nil (cancelled AND nil: [weak]      *)
(*      either nil or the context's error -- the doc says "exits" for both);                 *)
(*    - returns a non-nil error only if the context was cancelled, and then the context's    *)
(*      error ([weak] or if the backoff returned Stop, see below);                           *)
(*    - never invokes f again after f returned nil;                                          *)
(*    - between the return of a failed invocation and the next invocation it calls           *)
(*      NextBackOff at least once and waits exactly the last interval returned (virtual      *)
(*      time); bo = nil means the default config (B1 defaults) -- the waits are then judged  *)
(*      against the reference sequence, which also means Retry resets it only via success;   *)
(*    - the `success` callback handed to f resets the backoff (Reset is called before        *)
(*      success() returns);                                                                 *)
(*    - once f returned nil or the context is cancelled, Retry has returned by the time the  *)
(*      harness has let every pending wait and invocation finish ("final").                  *)
(*    What Retry does when the backoff returns Stop (-1): the code passes it to time.After,  *)
(*    a negative duration fires at once, so f is invoked again with no wait -- Stop does not *)
(*    stop (an exponential backoff past max_elapsed_time turns Retry into a loop without     *)
(*    delay).  backoff.go's "Stop indicates that no more retries should be made" describes   *)
(*    the constant, retry.go promises nothing about it and backoff.proto says "might be      *)
(*    ignored": recorded as an observation.  The monitor accepts both the code's behaviour   *)
(*    (next invocation after a wait of exactly 0) and a Retry that returns a non-nil error.  *)
(*                                                                                          *)
(* Units.  TLC integers are 32 bit.  A duration / time stamp is a record [u, n]: u whole     *)
(* microseconds, n in 0..999 the nanoseconds on top.  The driver keeps the virtual clock     *)
(* below 2^31 us (35 min), intervals at or below 60 s and multiplier numerators small, so    *)
(* that no product overflows (TLC reports an overflow as an error, it never wraps).          *)
EXTENDS Integers, Sequences, FiniteSets, TLC

VARIABLES ps, bad
pvars == <<ps, bad>>

Null == [h |-> "none"]
PInit  == ps = Null /\ bad = {}
PReset == ps' = Null /\ bad' = {}
R(s, b) == [s |-> s, bad |-> b]

-----------------------------------------------------------------------------
(* durations *)
Dur(u, n) == [u |-> u, n |-> n]
Ms(m)     == Dur(m * 1000, 0)
Zero      == Dur(0, 0)
DAdd(a, b) == LET n == a.n + b.n IN Dur(a.u + b.u + n \div 1000, n % 1000)
DSub(a, b) == IF a.n >= b.n THEN Dur(a.u - b.u, a.n - b.n) ELSE Dur(a.u - b.u - 1, a.n + 1000 - b.n)
DLe(a, b)  == a.u < b.u \/ (a.u = b.u /\ a.n <= b.n)
DLt(a, b)  == a.u < b.u \/ (a.u = b.u /\ a.n < b.n)
DMin(a, b) == IF DLe(a, b) THEN a ELSE b
DMax(a, b) == IF DLe(a, b) THEN b ELSE a
Big == 1000000000
\* a - b in nanoseconds, saturating at +-Big (differences beyond one second are "far")
DiffNs(a, b) == LET du == a.u - b.u IN
                IF du > 1000000 THEN Big ELSE IF du < -1000000 THEN -Big ELSE du * 1000 + (a.n - b.n)
\* floor(a * num / den), exact
MulFloor(a, num, den) ==
    LET A == a.u * num
        B == (A % den) * 1000 + a.n * num
        qb == B \div den
    IN Dur(A \div den + qb \div 1000, qb % 1000)

-----------------------------------------------------------------------------
(* the constructed backoff: config with the documented defaults applied *)
Cfg(e) == [kind |-> e.kind,
           ini |-> Ms(IF e.ini = 0 THEN 800 ELSE e.ini),
           num |-> IF e.num = 0 THEN 9 ELSE e.num,
           den |-> IF e.num = 0 THEN 5 ELSE e.den,
           max |-> Ms(IF e.max = 0 THEN 20000 ELSE e.max),
           rnum |-> e.rnum,
           rden |-> IF e.rnum = 0 THEN 1 ELSE e.rden,
           mel |-> e.mel,
           civ |-> Ms(IF e.civ = 0 THEN 5000 ELSE e.civ)]
DefaultCfg == Cfg([kind |-> 0, ini |-> 0, num |-> 0, den |-> 0, max |-> 0, rnum |-> 0, rden |-> 0, mel |-> 0, civ |-> 0])

BoNew(c, now)   == [c |-> c, cur |-> c.ini, tol |-> 0, start |-> now, first |-> TRUE, loose |-> FALSE, lcur |-> c.ini]
BoReset(b, now) == [b EXCEPT !.cur = b.c.ini, !.tol = 0, !.start = now, !.first = TRUE, !.loose = FALSE, !.lcur = b.c.ini]

(* One step of the reference sequence.  Tolerance (nanoseconds), and why it cannot hide a   *)
(* wrong interval: the library keeps the multiplier as a float32 and computes                *)
(* time.Duration(float64(cur) * multiplier), i.e. a truncation to whole ns of a product      *)
(* whose factor is off by a relative error of at most 2^-24 < 10^-7 (1.8 is stored as        *)
(* 1.79999995..).  Per step the observed value may therefore differ from floor(cur*num/den)  *)
(* by: the error carried so far times the multiplier, + 1 ns for the rounding mode ([weak]   *)
(* the docs do not fix it), + 1 ns for the float64 rounding of the product, + raw * 10^-7    *)
(* (= raw.u / 10^4 ns) for the float32 factor.  From 1 ms to 60 s with 1.8 (19 steps) that   *)
(* accumulates to 0.0004 % of the interval, with 1.1 (116 steps) to 0.0025 %, the largest of  *)
(* all configs used; a multiplier of 2.0 instead of 1.8 is off by 11 % at the first step, 1.8  *)
(* vs 1.7999 by 0.006 %.  Once the product clearly exceeds max_interval the interval is        *)
(* exactly max_interval (whole ms) and the tolerance returns to 0; a multiplier of exactly 1   *)
(* is exact.                                                                                  *)
SeqStep(b) ==
    LET c == b.c
        raw == MulFloor(b.cur, c.num, c.den)
        rtol == IF c.num = c.den THEN b.tol ELSE (b.tol * c.num) \div c.den + 2 + raw.u \div 10000
        capped == DiffNs(raw, c.max) >= rtol
    IN [b EXCEPT !.cur = DMin(raw, c.max), !.tol = IF capped THEN 0 ELSE rtol, !.first = FALSE]

\* judge the result e ([res, u, n]) of a NextBackOff call made at time `now`
BoNext(b, now, e) ==
    LET c == b.c
        got == Dur(e.u, e.n)
    IN IF c.kind = 2
       THEN R(b, IF e.res = "val" /\ got = c.civ THEN {} ELSE {"ConstInterval"})
       ELSE
       LET r0 == c.rnum = 0
           weird == DLt(c.max, c.ini)
           elapsed == DSub(now, b.start)
           slack == b.tol + (IF r0 THEN 0 ELSE 4 + b.cur.u \div 5000)
           Lo(x) == IF r0 THEN x ELSE MulFloor(x, c.rden - c.rnum, c.rden)
           Hi(x) == IF r0 THEN x ELSE MulFloor(x, c.rden + c.rnum, c.rden)
           InRange(lox, hix) == DiffNs(got, Lo(lox)) >= -slack /\ DiffNs(got, Hi(hix)) <= slack
           rangeOK == \/ InRange(IF b.loose THEN DMin(b.lcur, b.cur) ELSE b.cur, IF b.loose THEN DMax(b.lcur, b.cur) ELSE b.cur)
                      \/ (weird /\ b.first /\ InRange(c.max, c.max))
           M == Ms(c.mel)
           over(x) == DiffNs(DAdd(elapsed, x), M)      \* > 0: elapsed + x exceeds M
           b2 == SeqStep(b)
           b3 == IF e.res = "stop" /\ ~b.loose THEN [b2 EXCEPT !.loose = TRUE, !.lcur = b.cur] ELSE b2
           name == IF r0 THEN "ExpInterval" ELSE "RandRange"
       IN R(b3,
            CASE e.res = "stop" ->
                    IF c.mel = 0 THEN {"ExpStopNever"}
                    ELSE IF weird THEN {}
                    ELSE IF over(Hi(b.cur)) <= -slack THEN {"ExpStopEarly"} ELSE {}
              [] e.res = "val" ->
                    (IF rangeOK THEN {} ELSE {name})
                    \cup (IF c.mel # 0 /\ ~weird /\ over(got) > slack THEN {"ExpStopMissing"} ELSE {})
              [] OTHER -> {name})

-----------------------------------------------------------------------------
(* "bo" executions: one config, a sequence of next / reset / advance / validate / empty *)

Now(e) == Dur(e.tu, e.tn)

BoObjNew(e) == [h |-> "bo", kind |-> e.kind, b |-> BoNew(Cfg(e), Now(e)), now |-> Now(e)]

ValidateBad(kind, e) ==
    LET want == kind \notin {0, 1, 2} \/ (~e.allow /\ kind = 0)
    IN IF e.err = want THEN {} ELSE {"Validate"}

BoStep(s, e) ==
    CASE e.ev = "next"     -> IF s.kind \notin {0, 1, 2} THEN R(s, {"Harness"})
                              ELSE LET r == BoNext(s.b, s.now, e) IN
                                   R([s EXCEPT !.b = r.s], r.bad \cup (IF Now(e) = s.now THEN {} ELSE {"Harness"}))
      [] e.ev = "boreset"  -> R([s EXCEPT !.b = BoReset(s.b, s.now)], IF Now(e) = s.now THEN {} ELSE {"Harness"})
      [] e.ev = "advance"  -> LET t == DAdd(s.now, Ms(e.d)) IN
                              R([s EXCEPT !.now = t], IF Now(e) = t THEN {} ELSE {"Harness"})
      [] e.ev = "validate" -> R(s, ValidateBad(s.kind, e))
      [] e.ev = "empty"    -> R(s, IF e.res = (s.kind = 0) THEN {} ELSE {"Validate"})
      [] OTHER             -> R(s, {"Unexplained"})

-----------------------------------------------------------------------------
(* "retry" executions: one call of retry.Retry with a scripted f.  The backoff handed to     *)
(* Retry is  bo = "cfg": Construct() of a config, wrapped so that NextBackOff / Reset are    *)
(* logged (and judged by B1-B3 like in a "bo" execution);  "script": a harness backoff that  *)
(* returns scripted intervals (-1 = Stop);  "nil": Retry's own DefaultBackoff(), invisible   *)
(* -- the waits are judged against the reference sequence of the default config.             *)

RetryNew(e) ==
    [h |-> "retry", bok |-> e.bo,
     b |-> IF e.bo = "script" THEN Null ELSE BoNew(IF e.bo = "nil" THEN DefaultCfg ELSE Cfg(e), Now(e)),
     inv |-> 0, running |-> FALSE, tret |-> Zero, nexts |-> 0, last |-> [res |-> "none", d |-> Zero],
     cancelled |-> FALSE, returned |-> FALSE, sawNil |-> FALSE, lastNil |-> FALSE, stopSeen |-> FALSE,
     insucc |-> FALSE, rs |-> FALSE]

RetryStep(s, e) ==
    LET now == Now(e) IN
    CASE e.ev = "inv" ->
            LET gap == DSub(now, s.tret)
                hid == BoNext(s.b, s.tret, [res |-> "val", u |-> gap.u, n |-> gap.n])
                waitBad ==
                    IF s.inv = 0 THEN {}
                    ELSE IF s.bok = "nil" THEN (IF hid.bad = {} THEN {} ELSE {"RetryWait"})
                    ELSE IF s.nexts = 0 THEN {"RetryBackoffUse"}
                    ELSE IF gap = (IF s.last.res = "val" THEN s.last.d ELSE Zero) THEN {} ELSE {"RetryWait"}
            IN R([s EXCEPT !.inv = @ + 1, !.running = TRUE,
                           !.b = IF s.bok = "nil" /\ s.inv > 0 THEN hid.s ELSE @],
                 waitBad \cup (IF s.sawNil THEN {"RetryAfterNil"} ELSE {})
                         \cup (IF s.running \/ s.returned \/ e.i # s.inv + 1 THEN {"Harness"} ELSE {}))
      [] e.ev = "invret" ->
            R([s EXCEPT !.running = FALSE, !.tret = now, !.nexts = 0, !.last = [res |-> "none", d |-> Zero],
                        !.sawNil = @ \/ e.out = "nil", !.lastNil = e.out = "nil"],
              IF s.running THEN {} ELSE {"Harness"})
      [] e.ev = "succ" ->
            R([s EXCEPT !.insucc = TRUE, !.rs = s.bok = "nil",
                        !.b = IF s.bok = "nil" THEN BoReset(@, now) ELSE @], {})
      [] e.ev = "succret" ->
            R([s EXCEPT !.insucc = FALSE], IF s.rs THEN {} ELSE {"RetrySuccessReset"})
      [] e.ev = "boreset" ->
            R([s EXCEPT !.rs = @ \/ s.insucc, !.b = IF s.bok = "cfg" THEN BoReset(@, now) ELSE @], {})
      [] e.ev = "next" ->
            LET r == IF s.bok = "cfg" THEN BoNext(s.b, now, e) ELSE R(s.b, {}) IN
            R([s EXCEPT !.b = r.s, !.nexts = @ + 1, !.last = [res |-> e.res, d |-> Dur(e.u, e.n)],
                        !.stopSeen = @ \/ e.res # "val"], r.bad)
      [] e.ev = "cancel" -> R([s EXCEPT !.cancelled = TRUE], {})
      [] e.ev = "ret" ->
            R([s EXCEPT !.returned = TRUE],
              (IF e.err = "" /\ ~s.lastNil THEN {"RetryNil"} ELSE {})
              \cup (IF e.err # "" /\ s.sawNil /\ ~s.cancelled THEN {"RetryNil"} ELSE {})
              \cup (IF e.err # "" /\ ~s.cancelled /\ ~s.stopSeen THEN {"RetryErr"} ELSE {})
              \cup (IF e.err # "" /\ s.cancelled /\ e.err # "canceled" THEN {"RetryErr"} ELSE {})
              \cup (IF s.returned \/ s.running THEN {"Harness"} ELSE {}))
      [] e.ev = "final" ->
            R(s, IF s.returned THEN {}
                 ELSE IF s.sawNil \/ s.cancelled THEN {"RetryReturns"}
                 ELSE {"Harness"})
      [] OTHER -> R(s, {"Unexplained"})

-----------------------------------------------------------------------------
Step(s, e) ==
    IF e.ev = "new"
    THEN R(IF e.h = "retry" THEN RetryNew(e) ELSE BoObjNew(e), IF s.h = "none" THEN {} ELSE {"Harness"})
    ELSE CASE s.h = "bo"    -> BoStep(s, e)
           [] s.h = "retry" -> RetryStep(s, e)
           [] OTHER         -> R(s, {"Unexplained"})

\* the effect of a sequence of events
Run(s, es) ==
    LET g[i \in 0..Len(es)] ==
            IF i = 0 THEN R(s, {})
            ELSE LET r == Step(g[i-1].s, es[i]) IN R(r.s, g[i-1].bad \cup r.bad)
    IN g[Len(es)]

\* the action used by the X specs and the trace spec
Fire(es) == LET r == Run(ps, es) IN ps' = r.s /\ bad' = bad \cup r.bad

Violated == bad

\* name of violated condition -> property id
PropertyOf == [ExpInterval |-> "X01", ExpStopNever |-> "X01", ExpStopEarly |-> "X01", ExpStopMissing |-> "X01",
               ConstInterval |-> "X01", RandRange |-> "X01", Validate |-> "X01",
               RetryNil |-> "X01", RetryErr |-> "X01", RetryAfterNil |-> "X01", RetryWait |-> "X01",
               RetryBackoffUse |-> "X01", RetrySuccessReset |-> "X01", RetryReturns |-> "X01",
               Harness |-> "HARNESS", Unexplained |-> "HARNESS"]
=============================================================================
