----------------------------- MODULE BackoffPTrace -----------------------------
(* Replays an ndjson trace recorded from the real backoff.Construct / retry.Retry code      *)
(* through the BackoffP reference model.  Deterministic: one TLC state per event.            *)
EXTENDS BackoffP, TraceLib

VARIABLES l, viol, seen

tvars == <<l, viol, seen>>

TInit == PInit /\ l = 1 /\ viol = <<>> /\ seen = {}

\* Violations of the current state (the result of event l-1), not yet reported in this run.
Fresh == Violated \ seen
MaxViol == 500
Recorded ==
    IF l > 1 /\ Fresh # {} /\ Len(viol) < MaxViol
    THEN Append(viol, [run |-> Trace[l-1].run, seq |-> Trace[l-1].seq, names |-> Fresh, l |-> l - 1])
    ELSE viol

Apply(e) ==
    CASE e.ev = "reset" -> PReset
      [] e.ev \in {"leak", "note", "end", "spin"} -> UNCHANGED pvars
      [] OTHER -> Fire(<<e>>)

TStep ==
    /\ l <= Len(Trace)
    /\ viol' = Recorded
    /\ seen' = IF Trace[l].ev = "reset" THEN {} ELSE seen \cup Violated
    /\ Apply(Trace[l])
    /\ l' = l + 1

TFinish ==
    /\ l = Len(Trace) + 1
    /\ viol' = Recorded
    /\ WriteVerdict(viol', Len(Trace))
    /\ l' = l + 1
    /\ UNCHANGED <<pvars, seen>>

TNext == TStep \/ TFinish
TSpec == TInit /\ [][TNext]_<<pvars, tvars>>
=============================================================================
