#!/bin/sh
# Run once after a fresh restore, offline: warm the Go build cache by building the harness
# against /repo (hooks on) once per driver (each check builds only its own driver: the drivers
# are separate compilation units selected by build tags), and check that TLC starts.
set -e
cd "$(dirname "$0")"
export GOFLAGS=-mod=mod GOPROXY=off GOSUMDB=off GOTOOLCHAIN=local
mkdir -p out/setup/build evidence
python3 - <<'PY'
import sys, glob, os, importlib
sys.path.insert(0, "tools")
import vlib
wd = vlib.outdir("setup")
drivers = set()
for f in sorted(glob.glob("tools/fam_*.py")):
    try:
        m = importlib.import_module(os.path.basename(f)[:-3])
    except Exception as e:
        print("warning: cannot import", f, e)
        continue
    fam = getattr(m, "FAM", None)
    if isinstance(fam, dict) and fam.get("driver"):
        drivers.add(fam["driver"])
    for d in getattr(m, "DRIVERS", []):
        drivers.add(d)
for d in sorted(drivers):
    vlib.build_harness(wd, driver=d)
vlib.build_harness(wd, race=True, driver="none,racep")
print("harness built for drivers:", ", ".join(sorted(drivers)))
PY
JAVA_TOOL_OPTIONS="-DTLA-Library=$(pwd)/specs/lib" tla-sany specs/csync/CsyncP.tla >/dev/null 2>&1 || { echo "tla-sany failed"; exit 1; }
echo setup ok
