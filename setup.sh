#!/bin/sh
# Run once after a fresh restore, offline: warm the Go build cache by building the harness
# against /repo (hooks on), and check that TLC starts.
set -e
cd "$(dirname "$0")"
export GOFLAGS=-mod=mod GOPROXY=off GOSUMDB=off GOTOOLCHAIN=local
mkdir -p out/setup/build evidence
python3 - <<'PY'
import sys; sys.path.insert(0, "tools")
import vlib
b = vlib.build_harness(vlib.outdir("setup"))
print("harness built:", b)
PY
JAVA_TOOL_OPTIONS="-DTLA-Library=$(pwd)/specs/lib" tla-sany specs/csync/CsyncP.tla >/dev/null 2>&1 || { echo "tla-sany failed"; exit 1; }
echo setup ok
